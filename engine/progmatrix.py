"""E5 — program matrix for C19: {documented API entry} x {group} x {scalar} x {storage kind}.

Every cell is a generated one-entry client function `static bool e_<id>(Ctx&)` that calls the entry on an operand of the
storage kind under test and compares the result with the canonical member on an owning copy.  One batch translation unit per
(group, scalar, kind) holds all applicable cells; it is compiled (-std=c++11, as advertised), linked and run.  When a batch
does not compile, the compiler diagnostics are mapped back to the entry functions by line number, those cells are recorded as
`does_not_compile` and the batch is rebuilt without them (repeated until it builds), so every other cell is still executed.
"""
import concurrent.futures as cf
import hashlib, json, os, re, subprocess, time

import driver

PRELUDE = r'''
#include <manif/manif.h>
#include <manif/algorithms/interpolation.h>
#include <manif/algorithms/average.h>
#include <manif/algorithms/decasteljau.h>
#include <cstdio>
#include <cstdlib>
#include <cmath>
#include <list>
#include <sstream>
#include <vector>
typedef %(GROUP)s G;
typedef G::Tangent T;
typedef G::Scalar S;
typedef G::Jacobian J;
typedef G::Vector P;
typedef %(OTHER)s O;
#define KIND %(KIND)d
#if KIND == 0
typedef G KG; typedef T KT;
#elif KIND == 1
typedef Eigen::Map<G> KG; typedef Eigen::Map<T> KT;
#else
typedef Eigen::Map<const G> KG; typedef Eigen::Map<const T> KT;
#endif
static const double TOL = sizeof(S) == 4 ? 1e-4 : 1e-12;
template <class A, class B> static bool same(const Eigen::MatrixBase<A>& a, const Eigen::MatrixBase<B>& b) {
  if (a.rows() != b.rows() || a.cols() != b.cols()) return false;
  for (int i = 0; i < a.rows(); ++i) for (int j = 0; j < a.cols(); ++j) {
    double x = (double)a(i, j), y = (double)b(i, j);
    if (!(std::fabs(x - y) <= TOL * (1 + std::fabs(y)))) return false;
  }
  return true;
}
static bool sames(S a, S b) { return std::fabs((double)a - (double)b) <= TOL * (1 + std::fabs((double)b)); }
struct Ctx {
  G Xo, Yo; T to, so; P p;
  S bx[G::RepSize], by[G::RepSize], bt[T::DoF], bs[T::DoF];
  Ctx() {
    srand(1234); Xo = G::Random(); Yo = G::Random(); to = T::Random(); so = T::Random();
    to.coeffs() *= S(0.5); so.coeffs() *= S(0.25);
    for (int i = 0; i < G::Dim; ++i) p(i) = S(0.25 * (i + 1) * ((i %% 2) ? -1 : 1));
    reset();
  }
  void reset() {
    for (int i = 0; i < G::RepSize; ++i) { bx[i] = Xo.coeffs()(i); by[i] = Yo.coeffs()(i); }
    for (int i = 0; i < T::DoF; ++i) { bt[i] = to.coeffs()(i); bs[i] = so.coeffs()(i); }
  }
};
// operands of the storage kind under test
#if KIND == 0
#define OPERANDS Ctx& c = ctx; c.reset(); KG X = c.Xo; KG Y = c.Yo; KT t = c.to; KT s = c.so; const G& Xo = c.Xo; const G& Yo = c.Yo; const T& to = c.to; const T& so = c.so; const P& p = c.p; (void)X; (void)Y; (void)t; (void)s; (void)Xo; (void)Yo; (void)to; (void)so; (void)p;
#else
#define OPERANDS Ctx& c = ctx; c.reset(); KG X(c.bx); KG Y(c.by); KT t(c.bt); KT s(c.bs); const G& Xo = c.Xo; const G& Yo = c.Yo; const T& to = c.to; const T& so = c.so; const P& p = c.p; (void)X; (void)Y; (void)t; (void)s; (void)Xo; (void)Yo; (void)to; (void)so; (void)p;
#endif
'''

# ---------------------------------------------------------------------------------------------
# entry table: (id, needs_mutable, body) ; body is C++ statements ending in `return <bool>;`
# Variables: X, Y (group operands of the kind under test), t, s (tangent operands of that kind), Xo, Yo, to, so (owning
# copies with the same coefficients), p (a point).  `K` entries apply to Map<const> too.
# ---------------------------------------------------------------------------------------------
def common_entries():
    E = []
    def add(i, mut, body):
        E.append((i, mut, body))
    # ---- group side
    add('G.coeffs', 0, 'return same(X.coeffs(), Xo.coeffs());')
    add('G.data', 0, 'return X.data()[0] == Xo.data()[0];')
    add('G.operator[]', 0, 'return X[0] == Xo[0];')
    add('G.size', 0, 'return X.size() == (unsigned)G::RepSize;')
    add('G.cast', 0, 'return same(X.template cast<O>().coeffs(), Xo.template cast<O>().coeffs()) && ((X.template cast<O>().coeffs().template cast<double>() - Xo.coeffs().template cast<double>()).cwiseAbs().maxCoeff() <= 1e-5 * (1 + Xo.coeffs().template cast<double>().cwiseAbs().maxCoeff()));')
    add('G.setIdentity', 1, 'X.setIdentity(); return same(X.coeffs(), G::Identity().coeffs());')
    add('G.setRandom', 1, 'srand(3); X.setRandom(); srand(3); G r; r.setRandom(); return same(X.coeffs(), r.coeffs());')
    add('G.inverse', 0, 'J a, b; return same(X.inverse(a).coeffs(), Xo.inverse(b).coeffs()) && same(a, b) && same(X.inverse().coeffs(), Xo.inverse().coeffs());')
    add('G.log', 0, 'J a, b; return same(X.log(a).coeffs(), Xo.log(b).coeffs()) && same(a, b);')
    add('G.lift', 0, 'return same(X.lift().coeffs(), Xo.log().coeffs());')
    add('G.compose', 0, 'J a, b, c2, d; return same(X.compose(Y, a, b).coeffs(), Xo.compose(Yo, c2, d).coeffs()) && same(a, c2) && same(b, d) && same(X.compose(Yo).coeffs(), Xo.compose(Yo).coeffs());')
    add('G.act', 0, 'Eigen::Matrix<S, G::Dim, G::DoF> a, b; Eigen::Matrix<S, G::Dim, G::Dim> c2, d; return same(X.act(p, a, c2), Xo.act(p, b, d)) && same(a, b) && same(c2, d) && same(X.act(p), Xo.act(p));')
    add('G.adj', 0, 'return same(X.adj(), Xo.adj());')
    for op in ('rplus', 'lplus', 'plus'):
        add('G.' + op, 0, 'J a, b, c2, d; return same(X.%s(t, a, b).coeffs(), Xo.%s(to, c2, d).coeffs()) && same(a, c2) && same(b, d);' % (op, op))
    for op in ('rminus', 'lminus', 'minus'):
        add('G.' + op, 0, 'J a, b, c2, d; return same(X.%s(Y, a, b).coeffs(), Xo.%s(Yo, c2, d).coeffs()) && same(a, c2) && same(b, d);' % (op, op))
    add('G.between', 0, 'J a, b, c2, d; return same(X.between(Y, a, b).coeffs(), Xo.between(Yo, c2, d).coeffs()) && same(a, c2) && same(b, d);')
    add('G.isApprox', 0, 'return X.isApprox(Y, S(1e-3)) == Xo.isApprox(Yo, S(1e-3)) && X.isApprox(X);')
    add('G.operator==', 0, 'return (X == Y) == (Xo == Yo) && (X == X);')
    add('G.operator+', 0, 'return same((X + t).coeffs(), Xo.rplus(to).coeffs());')
    add('G.operator+=', 1, 'X += t; return same(X.coeffs(), Xo.rplus(to).coeffs());')
    add('G.operator-', 0, 'return same((X - Y).coeffs(), Xo.rminus(Yo).coeffs());')
    add('G.operator*', 0, 'return same((X * Y).coeffs(), Xo.compose(Yo).coeffs());')
    add('G.operator*=', 1, 'X *= Y; return same(X.coeffs(), Xo.compose(Yo).coeffs());')
    add('G.assign_from_same_kind', 1, 'X = Y; return same(X.coeffs(), Yo.coeffs());')
    add('G.assign_from_owning', 1, 'X = Yo; return same(X.coeffs(), Yo.coeffs());')
    add('G.assign_from_vector', 1, 'typename G::DataType v = Yo.coeffs(); X = v; return same(X.coeffs(), Yo.coeffs());')
    add('G.assign_from_rvalue', 1, 'X = Xo * Yo; return same(X.coeffs(), Xo.compose(Yo).coeffs());')
    add('G.copy_construct_owning_from_kind', 0, 'G a(X); G b = X; G c2(std::move(G(X))); return same(a.coeffs(), Xo.coeffs()) && same(b.coeffs(), Xo.coeffs()) && same(c2.coeffs(), Xo.coeffs());')
    add('G.copy_construct_same_kind', 0, 'KG a(X); return same(a.coeffs(), Xo.coeffs());')
    add('G.Identity', 0, 'return same(KG::Identity().coeffs(), G::Identity().coeffs()) && same(G::Identity().coeffs(), T::Zero().exp().coeffs());')
    add('G.Random', 0, 'srand(5); G a = KG::Random(); srand(5); G b = G::Random(); return same(a.coeffs(), b.coeffs());')
    add('G.operator<<', 0, 'std::ostringstream a, b; a << X; b << Xo; return a.str() == b.str() && !a.str().empty();')
    add('G._placeholder', 0, 'J a, b; X.compose(Y, KG::_, a); Xo.compose(Yo, G::_, b); return same(a, b);')
    add('G.transform', 0, 'return same(X.transform(), Xo.transform());')
    # ---- tangent side
    add('T.coeffs', 0, 'return same(t.coeffs(), to.coeffs());')
    add('T.data', 0, 'return t.data()[0] == to.data()[0];')
    add('T.operator[]', 0, 'return t[0] == to[0] && t.size() == (unsigned)T::DoF;')
    add('T.cast', 0, 'return same(t.template cast<O>().coeffs(), to.template cast<O>().coeffs()) && ((t.template cast<O>().coeffs().template cast<double>() - to.coeffs().template cast<double>()).cwiseAbs().maxCoeff() <= 1e-5 * (1 + to.coeffs().template cast<double>().cwiseAbs().maxCoeff()));')
    add('T.setZero', 1, 't.setZero(); return same(t.coeffs(), T::Zero().coeffs());')
    add('T.setRandom', 1, 'srand(3); t.setRandom(); srand(3); T r; r.setRandom(); return same(t.coeffs(), r.coeffs());')
    add('T.setVee', 1, 't.setVee(so.hat()); return same(t.coeffs(), so.coeffs());')
    add('T.generator', 0, 'return same(t.generator(0), T::Generator(0));')
    add('T.innerWeights', 0, 'return same(t.innerWeights(), T::InnerWeights());')
    add('T.inner', 0, 'return sames(t.inner(s), to.inner(so));')
    add('T.weightedNorm', 0, 'return sames(t.weightedNorm(), to.weightedNorm()) && sames(t.squaredWeightedNorm(), to.squaredWeightedNorm());')
    add('T.hat', 0, 'return same(t.hat(), to.hat());')
    add('T.exp', 0, 'J a, b; return same(t.exp(a).coeffs(), to.exp(b).coeffs()) && same(a, b);')
    add('T.retract', 0, 'return same(t.retract().coeffs(), to.exp().coeffs());')
    for op in ('rplus', 'lplus', 'plus'):
        add('T.%s(G)' % op, 0, 'J a, b, c2, d; return same(t.%s(Xo, a, b).coeffs(), to.%s(Xo, c2, d).coeffs()) && same(a, c2) && same(b, d);' % (op, op))
    add('T.plus(T)', 0, 'J a, b; return same(t.plus(s, a, b).coeffs(), (to.coeffs() + so.coeffs()).eval()) && same(a, J::Identity()) && same(b, J::Identity());')
    add('T.minus(T)', 0, 'J a, b; return same(t.minus(s, a, b).coeffs(), (to.coeffs() - so.coeffs()).eval()) && same(a, J::Identity()) && same(b, J(-J::Identity()));')
    for op in ('rjac', 'ljac', 'rjacinv', 'ljacinv', 'smallAdj'):
        add('T.' + op, 0, 'return same(t.%s(), to.%s());' % (op, op))
    add('T.bracket', 0, 'return same(t.bracket(s).coeffs(), to.bracket(so).coeffs()) && same(t.bracket(so).coeffs(), to.bracket(so).coeffs());')
    add('T.isApprox', 0, 'return t.isApprox(s, S(1e-3)) == to.isApprox(so, S(1e-3)) && t.isApprox(t) && t.isApprox(to.coeffs());')
    add('T.comma_initialiser', 1, 't << so.coeffs(); return same(t.coeffs(), so.coeffs());')
    add('T.unary_minus', 0, 'return same((-t).coeffs(), (-to.coeffs()).eval());')
    add('T.t+X', 0, 'return same((t + Xo).coeffs(), Xo.lplus(to).coeffs());')
    add('T.operator+=', 1, 't += s; T r = to; r += so; return same(t.coeffs(), r.coeffs());')
    add('T.operator-=', 1, 't -= s; T r = to; r -= so; return same(t.coeffs(), r.coeffs());')
    add('T.operator+=vector', 1, 't += so.coeffs(); T r = to; r += so.coeffs(); return same(t.coeffs(), r.coeffs());')
    add('T.operator-=vector', 1, 't -= so.coeffs(); T r = to; r -= so.coeffs(); return same(t.coeffs(), r.coeffs());')
    add('T.operator*=', 1, 't *= S(2.5); T r = to; r *= S(2.5); return same(t.coeffs(), r.coeffs());')
    add('T.operator/=', 1, 't /= S(2.5); T r = to; r /= S(2.5); return same(t.coeffs(), r.coeffs());')
    add('T.t+s', 0, 'return same((t + s).coeffs(), (to.coeffs() + so.coeffs()).eval()) && same((t - s).coeffs(), (to.coeffs() - so.coeffs()).eval());')
    add('T.t+vector', 0, 'return same((t + so.coeffs()).coeffs(), (to.coeffs() + so.coeffs()).eval()) && same((t - so.coeffs()).coeffs(), (to.coeffs() - so.coeffs()).eval());')
    add('T.vector+t', 0, 'typename T::DataType a = so.coeffs() + t, b = so.coeffs() - t; return same(a, (so.coeffs() + to.coeffs()).eval()) && same(b, (so.coeffs() - to.coeffs()).eval());')
    add('T.t*scalar', 0, 'return same((t * S(2.5)).coeffs(), (to.coeffs() * S(2.5)).eval()) && same((S(2.5) * t).coeffs(), (to.coeffs() * S(2.5)).eval()) && same((t / S(2.5)).coeffs(), (to.coeffs() / S(2.5)).eval());')
    add('T.J*t', 0, 'J m = to.rjac(); return same((m * t).coeffs(), (m * to.coeffs()).eval());')
    add('T.operator==', 0, 'return (t == s) == (to == so) && (t == t) && (t == to.coeffs());')
    add('T.assign_from_same_kind', 1, 't = s; return same(t.coeffs(), so.coeffs());')
    add('T.assign_from_owning', 1, 't = so; return same(t.coeffs(), so.coeffs());')
    add('T.assign_from_vector', 1, 'typename T::DataType v = so.coeffs(); t = v; return same(t.coeffs(), so.coeffs());')
    add('T.copy_construct_owning_from_kind', 0, 'T a(t); T b = t; return same(a.coeffs(), to.coeffs()) && same(b.coeffs(), to.coeffs());')
    add('T.Zero', 0, 'return same(KT::Zero().coeffs(), T::Zero().coeffs()) && T::Zero().coeffs().isZero(0);')
    add('T.Random', 0, 'srand(5); T a = KT::Random(); srand(5); T b = T::Random(); return same(a.coeffs(), b.coeffs());')
    add('T.Generator', 0, 'return same(KT::Generator(0), T::Generator(0));')
    add('T.InnerWeights', 0, 'return same(KT::InnerWeights(), T::InnerWeights());')
    add('T.Bracket', 0, 'return same(T::Bracket(to, s).coeffs(), to.bracket(so).coeffs());')
    add('T.Vee', 0, 'return same(KT::Vee(to.hat()).coeffs(), to.coeffs());')
    add('T.operator<<stream', 0, 'std::ostringstream a, b; a << t; b << to; return a.str() == b.str() && !a.str().empty();')
    # ---- free functions (functions.h)
    add('F.coeffs', 0, 'return same(manif::coeffs(X), Xo.coeffs()) && same(manif::coeffs(t), to.coeffs());')
    add('F.data', 0, 'return manif::data(X)[0] == Xo.data()[0] && manif::data(t)[0] == to.data()[0];')
    add('F.identity', 1, 'manif::identity(X); return same(X.coeffs(), G::Identity().coeffs());')
    add('F.Identity', 0, 'return same(manif::Identity<G>().coeffs(), G::Identity().coeffs());')
    add('F.zero', 1, 'manif::zero(t); return same(t.coeffs(), T::Zero().coeffs());')
    add('F.Zero', 0, 'return same(manif::Zero<T>().coeffs(), T::Zero().coeffs());')
    add('F.random', 1, 'srand(3); manif::random(X); srand(3); G r; r.setRandom(); srand(4); manif::random(t); srand(4); T q; q.setRandom(); return same(X.coeffs(), r.coeffs()) && same(t.coeffs(), q.coeffs());')
    add('F.Random', 0, 'srand(3); G a = manif::Random<G>(); srand(3); G b = G::Random(); return same(a.coeffs(), b.coeffs());')
    add('F.inverse', 0, 'J a, b; return same(manif::inverse(X, a).coeffs(), Xo.inverse(b).coeffs()) && same(a, b) && same(manif::inverse(X).coeffs(), Xo.inverse().coeffs());')
    for op in ('rplus', 'lplus', 'plus'):
        add('F.' + op, 0, 'J a, b, c2, d; return same(manif::%s(X, t, a, b).coeffs(), Xo.%s(to, c2, d).coeffs()) && same(a, c2) && same(b, d) && same(manif::%s(X, t).coeffs(), Xo.%s(to).coeffs());' % (op, op, op, op))
    for op in ('rminus', 'lminus', 'minus'):
        add('F.' + op, 0, 'J a, b, c2, d; return same(manif::%s(X, Y, a, b).coeffs(), Xo.%s(Yo, c2, d).coeffs()) && same(a, c2) && same(b, d);' % (op, op))
    add('F.log', 0, 'J a, b; return same(manif::log(X, a).coeffs(), Xo.log(b).coeffs()) && same(a, b) && same(manif::lift(X).coeffs(), Xo.log().coeffs());')
    add('F.exp', 0, 'J a, b; return same(manif::exp(t, a).coeffs(), to.exp(b).coeffs()) && same(a, b) && same(manif::retract(t).coeffs(), to.exp().coeffs());')
    add('F.compose', 0, 'J a, b, c2, d; return same(manif::compose(X, Y, a, b).coeffs(), Xo.compose(Yo, c2, d).coeffs()) && same(a, c2) && same(b, d);')
    add('F.between', 0, 'J a, b, c2, d; return same(manif::between(X, Y, a, b).coeffs(), Xo.between(Yo, c2, d).coeffs()) && same(a, c2) && same(b, d);')
    add('F.act', 0, 'Eigen::Matrix<S, G::Dim, G::DoF> a, b; Eigen::Matrix<S, G::Dim, G::Dim> c2, d; return same(manif::act(X, p, a, c2), Xo.act(p, b, d)) && same(a, b) && same(c2, d) && same(manif::act(X, p), Xo.act(p));')
    # ---- algorithms
    for m in ('SLERP', 'CUBIC', 'CNSMOOTH'):
        add('A.interpolate_' + m, 0, 'return same(manif::interpolate(X, Y, S(0.25), manif::INTERP_METHOD::%s).coeffs(), manif::interpolate(Xo, Yo, S(0.25), manif::INTERP_METHOD::%s).coeffs()) && same(manif::interpolate(X, Y, S(0.25), manif::INTERP_METHOD::%s, to, so).coeffs(), manif::interpolate(Xo, Yo, S(0.25), manif::INTERP_METHOD::%s, to, so).coeffs());' % (m, m, m, m))
    add('A.interpolate_slerp', 0, 'return same(manif::interpolate_slerp(X, Y, S(0.25)).coeffs(), Xo.rplus(Yo.rminus(Xo) * S(0.25)).coeffs());')
    add('A.interpolate_cubic', 0, 'return same(manif::interpolate_cubic(X, Y, S(0.25), to, so).coeffs(), manif::interpolate(Xo, Yo, S(0.25), manif::INTERP_METHOD::CUBIC, to, so).coeffs());')
    add('A.interpolate_smooth', 0, 'return same(manif::interpolate_smooth(X, Y, S(0.25), 3, to, so).coeffs(), manif::interpolate(Xo, Yo, S(0.25), manif::INTERP_METHOD::CNSMOOTH, to, so).coeffs());')
    add('A.smoothing_phi', 0, 'return manif::smoothing_phi(S(0), 3) == S(0) && manif::smoothing_phi(S(1), 3) == S(1);')
    for r in ('average_biinvariant', 'average', 'average_frechet_left', 'average_frechet_right'):
        add('A.%s<vector>' % r, 0, 'std::vector<G> v; v.push_back(Xo); v.push_back(Xo + to * S(0.1)); v.push_back(Xo + so * S(0.1)); G m = manif::%s(v); return m.isApprox(Xo, S(0.5));' % r)
        add('A.%s<list>' % r, 0, 'std::list<G> v; v.push_back(Xo); v.push_back(Xo + to * S(0.1)); v.push_back(Xo + so * S(0.1)); G m = manif::%s(v); return m.isApprox(Xo, S(0.5));' % r)
    add('A.decasteljau', 0, 'std::vector<G> v; v.push_back(Xo); v.push_back(Xo + to * S(0.1)); v.push_back(Xo + so * S(0.1)); v.push_back(Xo); std::vector<G> cv = manif::decasteljau(v, 3, 2, false); return cv.size() == 6u;')
    add('U.pi2pi_toRad_toDeg', 0, 'return sames(manif::pi2pi(S(4)), S(4 - 2 * MANIF_PI)) && sames(manif::toDeg(manif::toRad(S(30))), S(30));')
    add('U.skew', 0, 'Eigen::Matrix<S, 3, 1> v(S(1), S(2), S(3)); Eigen::Matrix<S, 3, 3> m = manif::skew(v); Eigen::Matrix<S, 2, 2> n = manif::skew(S(2)); return m(2, 1) == S(1) && m(0, 1) == S(-3) && n(1, 0) == S(2) && n(0, 1) == S(-2);')
    return E


# group specific accessors / setters
def specific_entries(gname):
    E = []
    def add(i, mut, body):
        E.append((i, mut, body))
    rot3 = gname in ('SO3', 'SE3', 'SE_2_3', 'SGal3')
    if gname in ('SO2', 'SE2') or rot3:
        add('G.rotation', 0, 'return same(X.rotation(), Xo.rotation());')
        add('G.normalize', 1, 'X.normalize(); G r = Xo; r.normalize(); return same(X.coeffs(), r.coeffs());')
    if gname in ('SO2', 'SE2'):
        add('G.real_imag_angle', 0, 'return X.real() == Xo.real() && X.imag() == Xo.imag() && sames(X.angle(), Xo.angle());')
    if gname in ('SE2', 'SE3', 'SE_2_3', 'SGal3'):
        add('G.translation', 0, 'return same(X.translation(), Xo.translation()) && X.x() == Xo.x() && X.y() == Xo.y();')
        add('G.isometry', 0, 'return same(X.isometry().matrix(), Xo.isometry().matrix());')
    if rot3:
        add('G.quat', 0, 'return same(X.quat().coeffs(), Xo.quat().coeffs());')
    if gname == 'SO3':
        add('G.xyzw', 0, 'return X.x() == Xo.x() && X.y() == Xo.y() && X.z() == Xo.z() && X.w() == Xo.w();')
        add('G.quat(q)', 1, 'X.quat(Yo.quat()); return same(X.coeffs(), Yo.coeffs());')
    if gname == 'SE3':
        add('G.z', 0, 'return X.z() == Xo.z();')
        add('G.quat(q)', 1, 'X.quat(Yo.quat()); return same(X.quat().coeffs(), Yo.quat().coeffs()) && same(X.translation(), Xo.translation());')
        add('G.translation(t)', 1, 'X.translation(Yo.translation()); return same(X.translation(), Yo.translation()) && same(X.quat().coeffs(), Xo.quat().coeffs());')
    if gname in ('SE_2_3', 'SGal3'):
        add('G.linearVelocity', 0, 'return same(X.linearVelocity(), Xo.linearVelocity()) && X.vx() == Xo.vx() && X.vy() == Xo.vy() && X.vz() == Xo.vz() && X.z() == Xo.z();')
    if gname == 'SGal3':
        add('G.t', 0, 'return X.t() == Xo.t();')
    if gname in ('SO2', 'SE2'):
        add('T.angle', 0, 'return t.angle() == to.angle();')
    if gname == 'SE2':
        add('T.x_y', 0, 'return t.x() == to.x() && t.y() == to.y();')
    if gname == 'SO3':
        add('T.x_y_z_ang', 0, 'return t.x() == to.x() && t.y() == to.y() && t.z() == to.z() && same(t.ang(), to.ang());')
    if gname in ('SE3', 'SE_2_3', 'SGal3'):
        add('T.lin_ang', 0, 'return same(t.lin(), to.lin()) && same(t.ang(), to.ang());')
    if gname in ('SE_2_3', 'SGal3'):
        add('T.lin2', 0, 'return same(t.lin2(), to.lin2());')
    if gname == 'SGal3':
        add('T.t', 0, 'return t.t() == to.t();')
    if gname.startswith('Bundle'):
        add('G.element<0>', 0, 'return same(X.template element<0>().coeffs(), Xo.template element<0>().coeffs());')
        add('G.element<0>_write', 1, 'X.template element<0>() = Yo.template element<0>(); G r = Xo; r.template element<0>() = Yo.template element<0>(); return same(X.coeffs(), r.coeffs());')
        add('T.element<0>', 0, 'return same(t.template element<0>().coeffs(), to.template element<0>().coeffs());')
    return E


def entries_for(gname, kind):
    out = []
    for (i, mut, body) in common_entries() + specific_entries(gname):
        if mut and kind == 2:
            continue
        out.append((i, body))
    return out


KINDS = ['owning', 'Map', 'MapConst']


def gen_tu(gtype, other, kind, entries, skip):
    src = PRELUDE % dict(GROUP=gtype, OTHER=other, KIND=kind)
    lines = src.count('\n')
    ranges = []
    body = ''
    names = []
    for idx, (eid, code) in enumerate(entries):
        if eid in skip:
            continue
        fn = 'static bool e_%d(Ctx& ctx) { OPERANDS\n  %s\n}\n' % (idx, code)
        start = lines + body.count('\n') + 1
        body += fn
        end = lines + body.count('\n')
        ranges.append((start, end, eid))
        names.append((idx, eid))
    main = 'int main() {\n  Ctx ctx; int bad = 0;\n'
    for idx, eid in names:
        main += '  { bool ok = false; try { ok = e_%d(ctx); } catch (std::exception& e) { std::printf("EXC %s %%s\\n", e.what()); } std::printf("%%s %s\\n", ok ? "PASS" : "FAIL"); if (!ok) ++bad; }\n' % (idx, eid, eid)
    main += '  return 0;\n}\n'
    return src + body + main, ranges


def compile_tu(path, out, syntax_only=False):
    cmd = [driver.CXX, '-std=c++11', '-O0', '-w', '-fmax-errors=0', '-ftemplate-backtrace-limit=0'] + driver.INC
    if syntax_only:
        cmd += ['-fsyntax-only', path]
    else:
        cmd += [path, '-o', out]
    r = subprocess.run(cmd, capture_output=True, text=True)
    return r.returncode, r.stderr


def failing_entries(stderr, path, ranges):
    """map compiler diagnostics back to entry functions through the line numbers of the generated file"""
    bad = {}
    base = os.path.basename(path)
    cur_err = None
    blocks = re.split(r'\n(?=\S[^\n]*: error: |In file included|\S+: In )', stderr)
    # simple robust approach: every occurrence of "<gen>.cpp:<line>" in the stderr that falls into an entry's range marks that entry;
    # the first 'error:' line following it is kept as its diagnostic
    lines = stderr.splitlines()
    last_err = ''
    hits = []
    for i, l in enumerate(lines):
        for m in re.finditer(re.escape(base) + r':(\d+)', l):
            hits.append((i, int(m.group(1))))
    errs = [(i, l) for i, l in enumerate(lines) if ' error: ' in l]
    for (i, ln) in hits:
        for (a, b, eid) in ranges:
            if a <= ln <= b and eid not in bad:
                # nearest error line at or before/after
                msg = ''
                for (j, l) in errs:
                    if j >= i - 40:
                        msg = l.strip()
                        break
                if not msg and errs:
                    msg = errs[-1][1].strip()
                bad[eid] = msg[:400]
    return bad


def run_cell_batch(job):
    """job = (gname, gtype, scalar, kind) -> result dict in the harness JSON format"""
    gname, gtype, scalar, kind, workdir, tier, build_only = job
    t0 = time.time()
    other = 'float' if scalar == 'double' else 'double'
    entries = entries_for(gname, kind)
    unit = '%s/%s/%s' % (gname, scalar, KINDS[kind])
    key = hashlib.sha256((driver.tree_hash() + gen_tu(gtype, other, kind, entries, {})[0]).encode()).hexdigest()[:16]
    cache = os.path.join(workdir, 'cache_%s_%s_%d.%s.json' % (driver.sanitize(gname), scalar, kind, key))
    import glob as _glob
    for old in _glob.glob(os.path.join(workdir, 'cache_%s_%s_%d.*.json' % (driver.sanitize(gname), scalar, kind))):
        if old != cache:
            os.remove(old)
    skip = {}
    path = os.path.join(workdir, 'gen_%s_%s_%d.cpp' % (driver.sanitize(gname), scalar, kind))
    exe = os.path.join(workdir, 'bin_%s_%s_%d.%s' % (driver.sanitize(gname), scalar, kind, key))
    runout = ''
    built = False
    if os.path.exists(cache) and os.path.exists(exe):
        # the compiled batch for exactly this tree is cached (like every other harness binary); it is RUN again on every check
        skip = json.load(open(cache))['skip']
        built = True
    else:
        for old in _glob.glob(os.path.join(workdir, 'bin_%s_%s_%d.*' % (driver.sanitize(gname), scalar, kind))):
            os.remove(old)
        for attempt in range(6):
            src, ranges = gen_tu(gtype, other, kind, entries, skip)
            open(path, 'w').write(src)
            rc, err = compile_tu(path, exe)
            if rc == 0:
                built = True
                break
            bad = failing_entries(err, path, ranges)
            if not bad:
                # cannot attribute: report the whole batch
                skip = dict((e, 'batch does not compile and the diagnostics could not be attributed: ' + err[-300:]) for e, _ in entries)
                break
            skip.update(bad)
        json.dump(dict(skip=skip), open(cache, 'w'))
    if build_only:
        return None
    if built and os.path.exists(exe):
        r = subprocess.run([exe], capture_output=True, text=True, timeout=600)
        runout = r.stdout
        if r.returncode != 0:
            runout += '\nABNORMAL EXIT %d' % r.returncode
    failures, passed, failed = [], 0, 0
    prop = 'C19'
    for eid, msg in sorted(skip.items()):
        k = '%s/does_not_compile/%s/%s' % (prop, unit, eid)
        failures.append(dict(key=k, check='does_not_compile', residual=1, bar=0, detail=dict(diagnostic=msg)))
    seen = set()
    for l in runout.splitlines():
        if l.startswith('PASS '):
            passed += 1
            seen.add(l[5:])
        elif l.startswith('FAIL '):
            failed += 1
            seen.add(l[5:])
            k = '%s/forwards_to_canonical_member/%s/%s' % (prop, unit, l[5:])
            failures.append(dict(key=k, check='forwards_to_canonical_member', residual=1, bar=0, detail=dict(output=[x for x in runout.splitlines() if l[5:] in x][:3])))
    for eid, _ in entries:
        if eid not in seen and eid not in skip:
            k = '%s/did_not_run/%s/%s' % (prop, unit, eid)
            failures.append(dict(key=k, check='did_not_run', residual=1, bar=0, detail=dict(tail=runout[-300:])))
    n = len(entries)
    d = dict(property=prop, unit=unit, tier=tier, evaluations=n, product_size=n, nontrivial=passed, states=n, transitions=passed + failed,
             skipped=0, exhaustive=True, counters={'cells_compiled_linked_run_and_equal': passed, 'cells_not_compiling': len(skip), 'cells_wrong_result': failed},
             checks_done={'cell': n}, max_ratio={}, failures=failures,
             samples=[dict(cell='%s/%s' % (unit, entries[len(entries) // 2][0]), program=entries[len(entries) // 2][1])], notes=[],
             _unit=unit, _build='c++11', _wall=time.time() - t0)
    return d


def run_matrix(groups, scalars, tier, jobs, build_only=False):
    workdir = os.path.join(driver.BUILD, 'progmatrix_alt' if driver.ALT else 'progmatrix')
    os.makedirs(workdir, exist_ok=True)
    # drop stale caches (other tree hashes)
    tasks = []
    for gname, gtpl in groups:
        for s in scalars:
            for k in range(3):
                tasks.append((gname, gtpl.format(S=s), s, k, workdir, tier, build_only))
    res = []
    with cf.ThreadPoolExecutor(max_workers=jobs) as ex:
        for d in ex.map(run_cell_batch, tasks):
            if d is not None:
                res.append(d)
    keep = set()
    for d in res:
        pass
    return res
