// C14 companion pass: the SAME thread bodies (checks/c14.cpp) run FREE under the real ThreadSanitizer runtime, no scheduler.
// Purpose (guidance: "own every source of nondeterminism, then prove you do"): the controlled explorer in sched.cpp only
// preempts at static-initialisation guards and relies on its own happens-before detector for unsynchronised accesses; this pass
// cross-checks that detector with an independent one on free-running OS threads.  It is NOT the deciding step (free runs sample
// schedules) — it can only add alarms, never remove one, and a race it reports is a race of the real code.
#include "report.hpp"
#include <atomic>
#include <thread>
#include <vector>
#include <string>
#include <unistd.h>
#include <sys/wait.h>
#include <fcntl.h>

struct VfOp { const char* name; void (*fn)(unsigned char* out, int* len); };
extern "C" VfOp vf_ops[];
extern "C" int vf_nops;
extern "C" const char* vf_unit_name();
extern "C" void vf_init_shared();
extern "C" const char* __tsan_default_options() { return "exitcode=66:halt_on_error=0:report_signal_unsafe=0:verbosity=0:second_deadlock_stack=0"; }

struct Out { bool ok; int status; std::vector<std::string> results; std::string err; };

static Out run_child(const std::vector<int>& prog) {
  // results come back through a pipe (small); the child's stderr (ThreadSanitizer reports can be large) goes to an unlinked
  // temporary file — a second pipe would deadlock: the child blocks writing a long report while the parent waits for results
  int pd[2];
  char tmpl[] = "/tmp/vf_tsan_XXXXXX";
  int ef = mkstemp(tmpl);
  if (ef >= 0) unlink(tmpl);
  if (pipe(pd) || ef < 0) { Out o; o.ok = false; o.status = -1; return o; }
  pid_t pid = fork();
  if (pid == 0) {
    close(pd[0]); dup2(ef, 2);
    alarm(120);  // a hang is reported as an abnormal exit, never waited for
    const int n = (int)prog.size();
    static unsigned char bufs[8][1 << 16];
    int lens[8] = {0};
    vf_init_shared();
    if (n == 1) vf_ops[prog[0]].fn(bufs[0], &lens[0]);
    else {
      std::atomic<int> ready(0);
      std::vector<std::thread> th;
      for (int t = 0; t < n; ++t)
        th.emplace_back([&, t] { ready.fetch_add(1); while (ready.load() < n) {} vf_ops[prog[t]].fn(bufs[t], &lens[t]); });
      for (auto& x : th) x.join();
    }
    for (int t = 0; t < n; ++t) { if (write(pd[1], &lens[t], sizeof(int)) < 0) _exit(3); if (lens[t] && write(pd[1], bufs[t], lens[t]) < 0) _exit(3); }
    close(pd[1]);
    exit(0);  // normal exit: the TSan runtime turns it into 66 if it reported anything
  }
  close(pd[1]);
  Out o; o.ok = true;
  for (size_t t = 0; t < prog.size(); ++t) {
    int len = 0; if (read(pd[0], &len, sizeof len) != (ssize_t)sizeof len) { o.ok = false; break; }
    std::string s(len, '\0'); int got = 0; while (got < len) { ssize_t r = read(pd[0], &s[got], len - got); if (r <= 0) break; got += (int)r; }
    o.results.push_back(s);
  }
  close(pd[0]);
  int st = 0; waitpid(pid, &st, 0); o.status = st;
  { char eb[3000]; ssize_t r = pread(ef, eb, sizeof eb, 0); if (r > 0) o.err.assign(eb, eb + r); close(ef); }
  if (!WIFEXITED(st) || WEXITSTATUS(st) != 0) o.ok = false;
  return o;
}

int main(int argc, char** argv) {
  vf::Args a; a.parse(argc, argv);
  vf::Report R("C14", vf_unit_name(), a);
  const int n = vf_nops, reps = a.thorough() ? 12 : 2;
  std::vector<std::string> ref(n);
  for (int i = 0; i < n; ++i) { Out o = run_child(std::vector<int>(1, i)); ref[i] = o.results.empty() ? "" : o.results[0]; }
  long runs = 0;
  auto one = [&](const std::vector<int>& prog) {
    std::string key = "free-running TSan: ";
    for (size_t t = 0; t < prog.size(); ++t) key += (t ? " || " : "") + std::string(vf_ops[prog[t]].name);
    if (!R.want(key)) return;
    ++R.states; ++R.nontrivial;
    for (int r = 0; r < reps; ++r) {
      Out o = run_child(prog); ++runs;
      bool same = o.results.size() == prog.size();
      for (size_t t = 0; same && t < prog.size(); ++t) same = o.results[t] == ref[prog[t]];
      bool good = o.ok && same;
      if (!R.judge("tsan_free_running_no_report", good ? 0 : 1, 0.5, key)) {
        std::string first = o.err.substr(0, 900);
        R.fail("tsan_free_running_no_report", key, 1, 0, "{\"exit_status\":" + std::to_string(o.status) + ",\"results_equal_reference\":" + (same ? "true" : "false") + ",\"tsan_report\":\"" + vf::jesc(first) + "\"}");
        break;
      }
    }
  };
  for (int i = 0; i < n; ++i) for (int j = i; j < n; ++j) { if (!R.mine()) continue; std::vector<int> p; p.push_back(i); p.push_back(j); one(p); }
  for (int i = 0; i < n && i < 12; ++i) { if (!R.mine()) continue; std::vector<int> p(4, i); one(p); }
  R.counters["free_running_tsan_executions"] = runs;
  R.evaluations = runs; R.transitions = runs; R.product_size = R.states;
  R.note("supplementary free-running ThreadSanitizer pass (sampled schedules): cross-check of the explorer's own race detector, not the deciding step");
  R.write();
  return 0;
}
