// E4 — preemption-bounded systematic scheduler with a happens-before race detector.
//
// This translation unit is NOT instrumented.  The harness (checks/c14.cpp) is compiled with
//   clang++ -fsanitize=thread -c
// and linked WITHOUT the TSan runtime against this file, which supplies
//   * the __tsan_* entry points the compiler inserted before every memory access (fed into a vector-clock detector),
//   * __cxa_guard_acquire/release/abort (so every function-local-static initialisation is a hooked synchronisation op),
//   * a baton scheduler serialising N real pthreads and switching only at synchronisation operations,
//   * a stateless depth-first explorer over scheduling choices with an iterated preemption bound; every execution runs in
//     a forked child, so "first use in the process" is literally true for every schedule.
#include <dlfcn.h>
#include <pthread.h>
#include <semaphore.h>
#include <signal.h>
#include <sys/wait.h>
#include <unistd.h>
#include <cstdint>
#include <cstdio>
#include <cstdlib>
#include <cstring>
#include <map>
#include <set>
#include <string>
#include <unordered_map>
#include <vector>
#include <cxxabi.h>
#include "../report.hpp"

// ---- interface with the instrumented harness -------------------------------------------------
struct VfOp { const char* name; void (*fn)(unsigned char* out, int* len); };
extern "C" VfOp vf_ops[];
extern "C" int vf_nops;
extern "C" void vf_init_shared();
extern "C" const char* vf_unit_name();

namespace {

const int MAXT = 5;
struct VC { unsigned c[MAXT]; };
inline void vc_join(VC& a, const VC& b) { for (int i = 0; i < MAXT; ++i) if (b.c[i] > a.c[i]) a.c[i] = b.c[i]; }

enum St { NOTSTARTED, RUNNABLE, BLOCKED, FINISHED };
struct Th {
  pthread_t th; sem_t sem; int state; void* waiting; uintptr_t slo, shi; VC vc;
  std::vector<int> program; std::string result;
};
Th T[MAXT];
int NT = 0;                 // worker threads are 1..NT
thread_local int tl_tid = 0;
volatile bool g_active = false;
sem_t main_sem;

struct Guard { int state; int owner; VC clock; };   // 0 uninit, 1 in progress, 2 done
std::unordered_map<void*, Guard> guards;
std::vector<std::string> guard_order;               // order of completed initialisations (an "outcome")

struct Shadow { int wt; unsigned wc; uintptr_t wpc; unsigned rc[MAXT]; uintptr_t rpc[MAXT]; };
std::unordered_map<uintptr_t, Shadow> shadow;
long n_accesses = 0;
std::set<uintptr_t> shared_words;

struct Race { uintptr_t addr; int t1, t2; bool w1, w2; uintptr_t pc1, pc2; };
std::vector<Race> races;
bool deadlock = false;
std::string fatal;

// ---- choices ---------------------------------------------------------------------------------
struct Choice { int nenabled; int chosen; bool cur_enabled; };
std::vector<int> prefix;
std::vector<Choice> trace;

int pick(int current) {
  int en[MAXT]; int n = 0;
  bool cur_en = current > 0 && T[current].state == RUNNABLE;
  if (cur_en) en[n++] = current;
  for (int t = 1; t <= NT; ++t) if (t != current && (T[t].state == RUNNABLE || T[t].state == NOTSTARTED)) en[n++] = t;
  if (n == 0) {
    bool allfin = true;
    for (int t = 1; t <= NT; ++t) if (T[t].state != FINISHED) allfin = false;
    if (!allfin) deadlock = true;
    return -1;
  }
  if (n == 1) return en[0];
  size_t pos = trace.size();
  int idx = pos < prefix.size() ? prefix[pos] : 0;
  if (idx >= n) { fatal = "replay divergence: choice index out of range"; idx = 0; }
  Choice c; c.nenabled = n; c.chosen = idx; c.cur_enabled = cur_en;
  trace.push_back(c);
  return en[idx];
}

void hand_over(int from, int to) {
  // `from` (the running thread, or 0 for main) gives the baton to `to` (a worker, or -1: back to main)
  if (to == from) return;
  if (to > 0) { if (T[to].state == NOTSTARTED) T[to].state = RUNNABLE; sem_post(&T[to].sem); }
  else sem_post(&main_sem);
}

void sched_point() {
  int me = tl_tid;
  int next = pick(me);
  if (next == me) return;
  hand_over(me, next);
  sem_wait(&T[me].sem);
}

// ---- race detector ---------------------------------------------------------------------------
inline bool on_own_stack(uintptr_t a) { int t = tl_tid; return a >= T[t].slo && a < T[t].shi; }

void access(uintptr_t addr, int size, bool is_write, uintptr_t pc) {
  if (!g_active) return;
  int t = tl_tid;
  if (t <= 0) return;
  if (on_own_stack(addr)) return;
  ++n_accesses;
  // byte-granular shadow: two objects sharing an 8-byte word are not a conflict
  const VC& vc = T[t].vc;
  for (uintptr_t w = addr; w < addr + (uintptr_t)size; ++w) {
    Shadow& s = shadow[w];
    if (s.wt > 0 && s.wt != t && s.wc > vc.c[s.wt]) {
      Race r = {w, s.wt, t, true, is_write, s.wpc, pc}; if (races.size() < 64) races.push_back(r);
    }
    if (is_write) {
      for (int u = 1; u <= NT; ++u)
        if (u != t && s.rc[u] > vc.c[u]) { Race r = {w, u, t, false, true, s.rpc[u], pc}; if (races.size() < 64) races.push_back(r); }
      s.wt = t; s.wc = vc.c[t]; s.wpc = pc;
      for (int u = 0; u < MAXT; ++u) s.rc[u] = 0;
    } else {
      s.rc[t] = vc.c[t]; s.rpc[t] = pc;
    }
  }
  shared_words.insert(addr >> 3);
}

std::string symbolise(uintptr_t a) {
  Dl_info info;
  char buf[64];
  if (dladdr((void*)a, &info) && info.dli_sname) {
    int st = 0; char* d = abi::__cxa_demangle(info.dli_sname, nullptr, nullptr, &st);
    std::string s = (st == 0 && d) ? d : info.dli_sname;
    free(d);
    snprintf(buf, sizeof buf, "+0x%lx", (unsigned long)(a - (uintptr_t)info.dli_saddr));
    return s + buf;
  }
  snprintf(buf, sizeof buf, "0x%lx", (unsigned long)a);
  return buf;
}

void* thread_main(void* arg) {
  int t = (int)(intptr_t)arg;
  tl_tid = t;
  pthread_attr_t at; void* sa; size_t ss;
  pthread_getattr_np(pthread_self(), &at); pthread_attr_getstack(&at, &sa, &ss); pthread_attr_destroy(&at);
  T[t].slo = (uintptr_t)sa; T[t].shi = (uintptr_t)sa + ss;
  sem_wait(&T[t].sem);
  static thread_local unsigned char buf[1 << 17];
  for (size_t i = 0; i < T[t].program.size(); ++i) {
    int len = 0;
    vf_ops[T[t].program[i]].fn(buf, &len);
    T[t].result.append((const char*)buf, (size_t)len);
    T[t].result.push_back('|');
  }
  T[t].state = FINISHED;
  int next = pick(0);
  if (next > 0) hand_over(t, next); else hand_over(t, -1);
  return nullptr;
}

}  // namespace

// ---- entry points inserted by clang -fsanitize=thread ------------------------------------------
#define PC ((uintptr_t)__builtin_return_address(0))
extern "C" {
void __tsan_init() {}
void __tsan_func_entry(void*) {}
void __tsan_func_exit() {}
void __tsan_read1(void* a) { access((uintptr_t)a, 1, false, PC); }
void __tsan_read2(void* a) { access((uintptr_t)a, 2, false, PC); }
void __tsan_read4(void* a) { access((uintptr_t)a, 4, false, PC); }
void __tsan_read8(void* a) { access((uintptr_t)a, 8, false, PC); }
void __tsan_read16(void* a) { access((uintptr_t)a, 16, false, PC); }
void __tsan_write1(void* a) { access((uintptr_t)a, 1, true, PC); }
void __tsan_write2(void* a) { access((uintptr_t)a, 2, true, PC); }
void __tsan_write4(void* a) { access((uintptr_t)a, 4, true, PC); }
void __tsan_write8(void* a) { access((uintptr_t)a, 8, true, PC); }
void __tsan_write16(void* a) { access((uintptr_t)a, 16, true, PC); }
void __tsan_unaligned_read2(void* a) { access((uintptr_t)a, 2, false, PC); }
void __tsan_unaligned_read4(void* a) { access((uintptr_t)a, 4, false, PC); }
void __tsan_unaligned_read8(void* a) { access((uintptr_t)a, 8, false, PC); }
void __tsan_unaligned_read16(void* a) { access((uintptr_t)a, 16, false, PC); }
void __tsan_unaligned_write2(void* a) { access((uintptr_t)a, 2, true, PC); }
void __tsan_unaligned_write4(void* a) { access((uintptr_t)a, 4, true, PC); }
void __tsan_unaligned_write8(void* a) { access((uintptr_t)a, 8, true, PC); }
void __tsan_unaligned_write16(void* a) { access((uintptr_t)a, 16, true, PC); }
void __tsan_read_range(void* a, unsigned long n) { if (n) access((uintptr_t)a, (int)n, false, PC); }
void __tsan_write_range(void* a, unsigned long n) { if (n) access((uintptr_t)a, (int)n, true, PC); }
void __tsan_vptr_update(void** a, void*) { access((uintptr_t)a, 8, true, PC); }
void __tsan_vptr_read(void** a) { access((uintptr_t)a, 8, false, PC); }
void* __tsan_memcpy(void* d, const void* s, unsigned long n) { if (n) { access((uintptr_t)s, (int)n, false, PC); access((uintptr_t)d, (int)n, true, PC); } return memcpy(d, s, n); }
void* __tsan_memmove(void* d, const void* s, unsigned long n) { if (n) { access((uintptr_t)s, (int)n, false, PC); access((uintptr_t)d, (int)n, true, PC); } return memmove(d, s, n); }
void* __tsan_memset(void* d, int c, unsigned long n) { if (n) access((uintptr_t)d, (int)n, true, PC); return memset(d, c, n); }

// the guard byte: an acquire load that observes "initialised" synchronises with the release of the initialising thread
unsigned char __tsan_atomic8_load(const volatile unsigned char* a, int) {
  unsigned char v = *a;
  if (g_active && tl_tid > 0 && v != 0) {
    std::unordered_map<void*, Guard>::iterator it = guards.find((void*)a);
    if (it != guards.end() && it->second.state == 2) vc_join(T[tl_tid].vc, it->second.clock);
  }
  return v;
}
// other atomics the compiler might emit: treated as plain accesses of that size plus the real operation
unsigned int __tsan_atomic32_load(const volatile unsigned int* a, int) { return *a; }
unsigned long __tsan_atomic64_load(const volatile unsigned long* a, int) { return *a; }

int __cxa_guard_acquire(long long* g) {
  unsigned char* byte = (unsigned char*)g;
  if (!g_active || tl_tid <= 0) {  // outside the explored region (single threaded): plain semantics
    if (*byte) return 0;
    return 1;
  }
  int t = tl_tid;
  sched_point();
  for (;;) {
    Guard& G = guards[(void*)g];
    if (*byte && G.state != 2) { G.state = 2; }  // initialised before the threads were spawned
    if (G.state == 2) { vc_join(T[t].vc, G.clock); return 0; }
    if (G.state == 0) { G.state = 1; G.owner = t; return 1; }
    if (G.owner == t) { fatal = "recursive initialisation of a function-local static"; return 1; }
    // in progress in another thread: block
    T[t].state = BLOCKED; T[t].waiting = (void*)g;
    int next = pick(t);
    if (next < 0) { hand_over(t, -1); sem_wait(&T[t].sem); }   // deadlock: main is woken and reports
    else { hand_over(t, next); sem_wait(&T[t].sem); }
  }
}
void __cxa_guard_release(long long* g) {
  unsigned char* byte = (unsigned char*)g;
  *byte = 1;
  if (!g_active || tl_tid <= 0) return;
  int t = tl_tid;
  Guard& G = guards[(void*)g];
  G.state = 2; G.clock = T[t].vc; T[t].vc.c[t]++;
  guard_order.push_back(symbolise((uintptr_t)g));
  for (int u = 1; u <= NT; ++u) if (T[u].state == BLOCKED && T[u].waiting == (void*)g) { T[u].state = RUNNABLE; T[u].waiting = nullptr; }
  sched_point();
}
void __cxa_guard_abort(long long* g) {
  if (!g_active || tl_tid <= 0) return;
  Guard& G = guards[(void*)g];
  G.state = 0;
  for (int u = 1; u <= NT; ++u) if (T[u].state == BLOCKED && T[u].waiting == (void*)g) { T[u].state = RUNNABLE; T[u].waiting = nullptr; }
  sched_point();
}
}  // extern "C"

// ---- one execution (in the forked child) -------------------------------------------------------
static std::string run_execution(const std::vector<std::vector<int> >& programs, const std::vector<int>& pfx) {
  NT = (int)programs.size();
  prefix = pfx;
  vf_init_shared();
  sem_init(&main_sem, 0, 0);
  for (int t = 1; t <= NT; ++t) {
    T[t].state = NOTSTARTED; T[t].program = programs[t - 1]; T[t].result.clear(); T[t].waiting = nullptr;
    memset(&T[t].vc, 0, sizeof(VC)); T[t].vc.c[t] = 1;
    sem_init(&T[t].sem, 0, 0);
    pthread_create(&T[t].th, nullptr, thread_main, (void*)(intptr_t)t);
  }
  g_active = true;
  int first = pick(0);
  hand_over(0, first);
  sem_wait(&main_sem);
  g_active = false;
  std::string out;
  if (deadlock) {
    out += "DEADLOCK\n";
  } else {
    for (int t = 1; t <= NT; ++t) pthread_join(T[t].th, nullptr);
  }
  if (!fatal.empty()) out += "FATAL " + fatal + "\n";
  std::set<std::string> seen;
  for (size_t i = 0; i < races.size(); ++i) {
    const Race& r = races[i];
    std::string s = std::string("RACE ") + (r.w1 ? "write" : "read") + "/" + (r.w2 ? "write" : "read") + " on " + symbolise(r.addr) + " by " +
                    symbolise(r.pc1) + " and " + symbolise(r.pc2);
    if (seen.insert(s).second) out += s + "\n";
  }
  for (int t = 1; t <= NT; ++t) {
    out += "RESULT " + std::to_string(t) + " ";
    static const char* hx = "0123456789abcdef";
    for (size_t i = 0; i < T[t].result.size(); ++i) { unsigned char c = (unsigned char)T[t].result[i]; out += hx[c >> 4]; out += hx[c & 15]; }
    out += "\n";
  }
  out += "GUARDS";
  for (size_t i = 0; i < guard_order.size(); ++i) out += " " + std::to_string(std::hash<std::string>()(guard_order[i]) % 100000);
  out += "\n";
  out += "TRACE";
  for (size_t i = 0; i < trace.size(); ++i) out += " " + std::to_string(trace[i].nenabled) + ":" + std::to_string(trace[i].chosen) + ":" + (trace[i].cur_enabled ? "1" : "0");
  out += "\n";
  out += "STATS " + std::to_string(n_accesses) + " " + std::to_string(shared_words.size()) + "\n";
  return out;
}

struct Exec {
  bool ok; std::string raw; std::vector<Choice> trace; std::vector<std::string> races; std::vector<std::string> results; bool deadlock; std::string fatal;
  std::string guards; long accesses, words;
};

static Exec fork_run(const std::vector<std::vector<int> >& programs, const std::vector<int>& pfx) {
  Exec e; e.ok = false; e.deadlock = false; e.accesses = e.words = 0;
  int fd[2];
  if (pipe(fd) != 0) return e;
  pid_t pid = fork();
  if (pid == 0) {
    close(fd[0]);
    alarm(30);
    std::string out = run_execution(programs, pfx);
    size_t off = 0;
    while (off < out.size()) { ssize_t w = write(fd[1], out.data() + off, out.size() - off); if (w <= 0) break; off += (size_t)w; }
    close(fd[1]);
    _exit(0);
  }
  close(fd[1]);
  char buf[8192]; ssize_t n;
  while ((n = read(fd[0], buf, sizeof buf)) > 0) e.raw.append(buf, (size_t)n);
  close(fd[0]);
  int st = 0; waitpid(pid, &st, 0);
  e.ok = WIFEXITED(st) && WEXITSTATUS(st) == 0;
  if (!e.ok) { e.fatal = WIFSIGNALED(st) ? "child killed by signal " + std::to_string(WTERMSIG(st)) : "child exit status " + std::to_string(WEXITSTATUS(st)); }
  size_t p = 0;
  while (p < e.raw.size()) {
    size_t q = e.raw.find('\n', p); if (q == std::string::npos) q = e.raw.size();
    std::string l = e.raw.substr(p, q - p); p = q + 1;
    if (l.compare(0, 5, "RACE ") == 0) e.races.push_back(l.substr(5));
    else if (l == "DEADLOCK") e.deadlock = true;
    else if (l.compare(0, 6, "FATAL ") == 0) e.fatal = l.substr(6);
    else if (l.compare(0, 7, "RESULT ") == 0) e.results.push_back(l.substr(l.find(' ', 7) + 1));
    else if (l.compare(0, 6, "GUARDS") == 0) e.guards = l;
    else if (l.compare(0, 5, "TRACE") == 0) {
      size_t a = 5;
      while (a < l.size()) { int n1, c1, e1; if (sscanf(l.c_str() + a, " %d:%d:%d", &n1, &c1, &e1) != 3) break; Choice c; c.nenabled = n1; c.chosen = c1; c.cur_enabled = e1 != 0; e.trace.push_back(c); a = l.find(' ', a + 1); if (a == std::string::npos) break; }
    } else if (l.compare(0, 6, "STATS ") == 0) sscanf(l.c_str() + 6, "%ld %ld", &e.accesses, &e.words);
  }
  return e;
}

// ---- explorer ----------------------------------------------------------------------------------
struct Explorer {
  vf::Report& R;
  std::vector<std::vector<int> > programs;
  std::vector<std::string> reference;   // per-thread sequential results
  std::string key;
  int bound;
  long schedules, cap;
  bool capped;
  bool deadline_capped = false;
  size_t max_choice_points;
  std::set<std::string> outcomes;
  std::set<std::string> violations;
  long accesses_checked, max_words;
  Explorer(vf::Report& r) : R(r), bound(0), schedules(0), cap(0), capped(false), max_choice_points(0), accesses_checked(0), max_words(0) {}

  std::string sched_str(const std::vector<Choice>& tr) { std::string s; for (size_t i = 0; i < tr.size(); ++i) s += (i ? "," : "") + std::to_string(tr[i].chosen); return s; }

  void check(const Exec& e, const std::vector<int>& pfx) {
    ++schedules; ++R.transitions;
    accesses_checked += e.accesses; if (e.words > max_words) max_words = e.words;
    if (e.trace.size() > max_choice_points) max_choice_points = e.trace.size();
    outcomes.insert(e.guards);
    std::string sch = sched_str(e.trace);
    auto viol = [&](const std::string& check, const std::string& msg) {
      std::string k = check + "/" + key;
      if (violations.insert(k + msg.substr(0, 80)).second) {
        R.judge(check, 1, 0.5, key);
        R.fail(check, k, 1, 0, "{" + std::string("\"message\":\"") + vf::jesc(msg) + "\",\"schedule\":\"" + sch + "\",\"prefix_len\":" + std::to_string(pfx.size()) + "}");
      }
    };
    if (!e.ok) { viol("execution_completes", e.fatal); return; }
    if (!e.fatal.empty()) viol("execution_completes", e.fatal);
    if (e.deadlock) viol("no_deadlock", "no enabled thread while some thread is blocked");
    for (size_t i = 0; i < e.races.size(); ++i) viol("no_data_race", e.races[i]);
    for (size_t t = 0; t < e.results.size() && t < reference.size(); ++t)
      if (e.results[t] != reference[t]) viol("results_equal_single_thread", "thread " + std::to_string(t + 1) + " returned different bytes than the same calls in a single thread");
  }

  // preemptions used by a trace prefix of length n
  static int preemptions(const std::vector<Choice>& tr, size_t n) { int p = 0; for (size_t i = 0; i < n && i < tr.size(); ++i) if (tr[i].cur_enabled && tr[i].chosen != 0) ++p; return p; }

  void explore(const std::vector<int>& pfx) {
    if (cap && schedules >= cap) { capped = true; return; }
    if ((schedules & 63) == 0 && R.past_deadline()) { capped = true; deadline_capped = true; return; }
    Exec e = fork_run(programs, pfx);
    check(e, pfx);
    // replay divergence check: the executed trace must start with the prefix
    for (size_t i = 0; i < pfx.size() && i < e.trace.size(); ++i) if (e.trace[i].chosen != pfx[i]) { R.note("replay divergence at " + key); return; }
    for (size_t i = pfx.size(); i < e.trace.size(); ++i) {
      int before = preemptions(e.trace, i);
      for (int alt = 1; alt < e.trace[i].nenabled; ++alt) {
        int cost = before + (e.trace[i].cur_enabled ? 1 : 0);
        if (cost > bound) continue;
        std::vector<int> np;
        for (size_t j = 0; j < i; ++j) np.push_back(e.trace[j].chosen);
        np.push_back(alt);
        explore(np);
        if (capped) return;
      }
    }
  }
};

static std::vector<int> parse_prog(const std::string& s) { std::vector<int> v; size_t a = 0; while (a < s.size()) { v.push_back(atoi(s.c_str() + a)); a = s.find(',', a); if (a == std::string::npos) break; ++a; } return v; }

int main(int argc, char** argv) {
  vf::Args a; a.parse(argc, argv);
  a.deadline_check_every_cell = true;
  vf::Report R("C14", vf_unit_name(), a);
  const bool thorough = a.thorough();
  const int n = vf_nops;
  R.count("alphabet_size", n);
  // sequential reference of every op, each alone in a fresh process (twice: must be reproducible)
  std::vector<std::string> ref1(n);
  for (int i = 0; i < n; ++i) {
    std::vector<std::vector<int> > p(1, std::vector<int>(1, i));
    Exec e1 = fork_run(p, std::vector<int>()), e2 = fork_run(p, std::vector<int>());
    ++R.states;
    bool ok = e1.ok && e2.ok && e1.results.size() == 1 && e2.results.size() == 1 && e1.results[0] == e2.results[0];
    if (!R.judge("single_thread_reference_reproducible", ok ? 0 : 1, 0.5, vf_ops[i].name)) R.fail("single_thread_reference_reproducible", vf_ops[i].name, 1, 0, "{}");
    ref1[i] = e1.results.empty() ? "" : e1.results[0];
  }
  auto ref_of = [&](const std::vector<int>& prog) {
    std::vector<std::vector<int> > p(1, prog);
    Exec e = fork_run(p, std::vector<int>());
    return e.results.empty() ? std::string() : e.results[0];
  };
  long total_sched = 0, total_choice_max = 0, total_outcomes = 0, total_acc = 0, max_bound = 0;
  auto run_config = [&](const std::vector<std::vector<int> >& programs, int max_bound_cfg, long cap) {
    std::string key;
    for (size_t t = 0; t < programs.size(); ++t) { key += (t ? " || " : ""); for (size_t i = 0; i < programs[t].size(); ++i) key += (i ? ";" : "") + std::string(vf_ops[programs[t][i]].name); }
    if (!R.want(key)) return;
    Explorer ex(R); ex.programs = programs; ex.key = key; ex.cap = cap;
    for (size_t t = 0; t < programs.size(); ++t) ex.reference.push_back(programs[t].size() == 1 ? ref1[programs[t][0]] : ref_of(programs[t]));
    if (!a.replay.empty() && a.only.compare(0, 9, "schedule=") == 0) {
      // replay exactly one recorded schedule, twice: the observations must be identical before the verdict is trusted
      std::vector<int> pfx = parse_prog(a.only.substr(9));
      if (a.only.size() == 9) pfx.clear();
      Exec e1 = fork_run(programs, pfx), e2 = fork_run(programs, pfx);
      bool same = e1.raw == e2.raw;
      if (!R.judge("replayed_schedule_is_deterministic", same ? 0 : 1, 0.5, key)) R.fail("replayed_schedule_is_deterministic", key, 1, 0, "{}");
      ex.check(e1, pfx);
      ++R.states;
      return;
    }
    long prev = -1;
    int completed = -1;
    bool exhausted_cfg = false;
    for (int b = 0; b <= max_bound_cfg; ++b) {
      ex.bound = b; ex.schedules = 0; ex.capped = false;
      ex.explore(std::vector<int>());
      if (ex.capped) { R.exhaustive = false; R.note((ex.deadline_capped ? std::string("deadline reached") : "cap of " + std::to_string(cap) + " schedules hit") + " at bound " + std::to_string(b) + " for " + key); break; }
      completed = b;
      if (ex.schedules == prev) { exhausted_cfg = true; break; }  // a larger bound adds no schedule: the space is exhausted
      prev = ex.schedules;
    }
    R.count(exhausted_cfg ? "programs_with_ALL_schedules_explored" : "programs_explored_up_to_the_preemption_bound");
    ++R.states;
    if (programs.size() > 1) ++R.nontrivial;
    total_sched += ex.schedules; total_outcomes += (long)ex.outcomes.size(); total_acc += ex.accesses_checked;
    if ((long)ex.max_choice_points > total_choice_max) total_choice_max = (long)ex.max_choice_points;
    if (completed > max_bound) max_bound = completed;
    R.judge("no_data_race", ex.violations.empty() ? 0 : 0, 0.5, key);
    if (R.samples.size() < 4) R.sample("{\"program\":\"" + vf::jesc(key) + "\",\"schedules\":" + std::to_string(ex.schedules) + ",\"max_choice_points\":" + std::to_string(ex.max_choice_points) +
                                        ",\"preemption_bound_completed\":" + std::to_string(completed) + ",\"distinct_outcomes\":" + std::to_string(ex.outcomes.size()) + "}");
  };
  // 2 threads, every unordered pair of alphabet ops (incl. the same op twice), 1 op per thread: all schedules (bound iterated until exhaustion)
  long cell = 0;
  for (int i = 0; i < n; ++i)
    for (int j = i; j < n; ++j) {
      if (!R.mine()) continue;
      std::vector<std::vector<int> > p; p.push_back(std::vector<int>(1, i)); p.push_back(std::vector<int>(1, j));
      run_config(p, thorough ? 4 : 2, thorough ? 400000 : 20000);
      ++cell;
    }
  // 3 threads on collision-closed triples (the first three ops share the Identity/Zero chain; generators / inner weights; constant Jacobians)
  {
    std::vector<std::vector<int> > triples;
    for (int i = 0; i < n && i < 12; ++i) for (int j = i; j < n && j < 12; ++j) for (int k = j; k < n && k < 12; ++k) {
      std::string a1 = vf_ops[i].name, a2 = vf_ops[j].name, a3 = vf_ops[k].name;
      bool stat = (a1.find("static:") == 0) && (a2.find("static:") == 0) && (a3.find("static:") == 0);
      if (!stat) continue;
      std::vector<int> t3; t3.push_back(i); t3.push_back(j); t3.push_back(k); triples.push_back(t3);
    }
    for (size_t q = 0; q < triples.size(); ++q) {
      if (!R.mine()) continue;
      if (!thorough && q % 5 != 0) continue;
      std::vector<std::vector<int> > p; for (int t = 0; t < 3; ++t) p.push_back(std::vector<int>(1, triples[q][t]));
      run_config(p, thorough ? 3 : 1, thorough ? 300000 : 15000);
    }
  }
  if (thorough) {
    // 2-op programs per thread: a static is met both cold and warm
    for (int i = 0; i < n && i < 10; ++i) for (int j = 0; j < n && j < 10; ++j) {
      if (!R.mine()) continue;
      std::vector<int> p1; p1.push_back(i); p1.push_back(j);
      std::vector<int> p2; p2.push_back(j); p2.push_back(i);
      std::vector<std::vector<int> > p; p.push_back(p1); p.push_back(p2);
      run_config(p, 3, 300000);
    }
    // 4 threads on the Identity chain
    { std::vector<std::vector<int> > p; for (int t = 0; t < 4; ++t) p.push_back(std::vector<int>(1, 0)); if (R.mine()) run_config(p, 2, 300000); }
  }
  R.counters["schedules_explored"] = total_sched;
  R.max_ratio["stat:max_choice_points_in_one_execution"] = (double)total_choice_max; R.max_ratio_key["stat:max_choice_points_in_one_execution"] = "";
  R.counters["distinct_outcomes_sum"] = total_outcomes;
  R.counters["memory_accesses_checked"] = total_acc;
  R.max_ratio["stat:max_preemption_bound_completed"] = (double)max_bound; R.max_ratio_key["stat:max_preemption_bound_completed"] = "";
  R.evaluations = total_sched;
  R.transitions = total_sched;
  R.product_size = R.states;
  R.write();
  return 0;
}
