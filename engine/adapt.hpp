// Binding between manif types and the reference model.
#pragma once
#include <limits>
#include <manif/manif.h>
#include "ref.hpp"
#include <cstring>
#include <string>
#include <type_traits>

namespace vf {

template <class S> struct ScalarName;
template <> struct ScalarName<double> { static const char* s() { return "double"; } };
template <> struct ScalarName<float> { static const char* s() { return "float"; } };

// ---- block descriptor per manif group template -------------------------------------------
template <class G> struct BlockOf;
template <class S> struct BlockOf<manif::SO2<S>> { static ref::Block b() { return ref::make_block(ref::SO2); } };
template <class S> struct BlockOf<manif::SE2<S>> { static ref::Block b() { return ref::make_block(ref::SE2); } };
template <class S> struct BlockOf<manif::SO3<S>> { static ref::Block b() { return ref::make_block(ref::SO3); } };
template <class S> struct BlockOf<manif::SE3<S>> { static ref::Block b() { return ref::make_block(ref::SE3); } };
template <class S> struct BlockOf<manif::SE_2_3<S>> { static ref::Block b() { return ref::make_block(ref::SE23); } };
template <class S> struct BlockOf<manif::SGal3<S>> { static ref::Block b() { return ref::make_block(ref::SGAL3); } };
template <class S, unsigned int N> struct BlockOf<manif::Rn<S, N>> { static ref::Block b() { return ref::make_block(ref::RN, (int)N); } };

template <class G> struct Info {
  static ref::Group group() { return ref::Group(std::vector<ref::Block>(1, BlockOf<G>::b())); }
  static constexpr bool is_bundle = false;
};
template <class S, template <typename> class... T> struct Info<manif::Bundle<S, T...>> {
  static ref::Group group() {
    std::vector<ref::Block> v = {BlockOf<T<S>>::b()...};
    return ref::Group(v);
  }
  static constexpr bool is_bundle = true;
};

// the group descriptor of G, built once
template <class G> const ref::Group& RG() {
  static const ref::Group g = Info<G>::group();
  return g;
}

// ---- conversions ----------------------------------------------------------------------------
template <class D> ref::Vec toL(const Eigen::MatrixBase<D>& v) {
  ref::Vec r(v.size());
  for (int i = 0; i < (int)v.size(); ++i) r(i) = (ref::Real)v(i);
  return r;
}
template <class D> ref::Mat toLM(const Eigen::MatrixBase<D>& m) {
  ref::Mat r(m.rows(), m.cols());
  for (int i = 0; i < (int)m.rows(); ++i)
    for (int j = 0; j < (int)m.cols(); ++j) r(i, j) = (ref::Real)m(i, j);
  return r;
}
template <class V> V fromL(const ref::Vec& v) {
  V r;
  for (int i = 0; i < (int)v.size(); ++i) r(i) = (typename V::Scalar)v(i);
  return r;
}

// coefficient vector -> manif element WITHOUT going through any validating constructor
template <class G> G make_raw(const ref::Vec& c) {
  G x;
  for (int i = 0; i < G::RepSize; ++i) x.coeffs()(i) = (typename G::Scalar)c(i);
  return x;
}
template <class T> T make_tan(const ref::Vec& c) {
  T x;
  for (int i = 0; i < T::DoF; ++i) x.coeffs()(i) = (typename T::Scalar)c(i);
  return x;
}
// round a long-double coefficient vector to Scalar and re-normalise the rotation part in long double
// so that the stored coefficients are unit to ~1 ulp of Scalar
template <class G> G make_elem(const ref::Vec& c) {
  typedef typename G::Scalar S;
  const ref::Group& g = RG<G>();
  ref::Vec r = c;
  for (size_t b = 0; b < g.blocks.size(); ++b) {
    const ref::Block& B = g.blocks[b];
    int n = B.rotdim == 2 ? 2 : (B.rotdim == 3 ? 4 : 0);
    if (!n) continue;
    int o = g.offRep[b] + B.rot_c0;
    // two rounds of round-then-renormalise
    for (int it = 0; it < 2; ++it) {
      ref::Real s = 0;
      for (int i = 0; i < n; ++i) { r(o + i) = (ref::Real)(S)r(o + i); s += r(o + i) * r(o + i); }
      s = std::sqrt(s);
      for (int i = 0; i < n; ++i) r(o + i) /= s;
    }
  }
  return make_raw<G>(r);
}

template <class G> ref::Mat Mof(const G& x) { return RG<typename G::LieGroup>().toM(toL(x.coeffs())); }

// bit-pattern equality of two Eigen objects
template <class A, class B> bool bits_equal(const Eigen::MatrixBase<A>& a, const Eigen::MatrixBase<B>& b) {
  if (a.rows() != b.rows() || a.cols() != b.cols()) return false;
  for (int i = 0; i < (int)a.rows(); ++i)
    for (int j = 0; j < (int)a.cols(); ++j) {
      typename A::Scalar x = a(i, j);
      typename A::Scalar y = b(i, j);
      if (std::memcmp(&x, &y, sizeof(x)) != 0) return false;
    }
  return true;
}

template <class D> bool all_finite(const Eigen::MatrixBase<D>& m) {
  for (int i = 0; i < (int)m.rows(); ++i)
    for (int j = 0; j < (int)m.cols(); ++j)
      if (!std::isfinite((double)m(i, j))) return false;
  return true;
}

// max |entry|, NaN-safe: Eigen's maxCoeff() silently skips NaN (its propagation is unspecified), which would turn an output
// left unwritten (NaN sentinel) or a NaN produced by the subject into a small residual.  Any NaN makes the result +infinity.
template <class D> typename D::Scalar maxabs(const Eigen::MatrixBase<D>& m0) {
  typedef typename D::Scalar Sc;
  typename D::PlainObject m = m0;
  Sc r = 0;
  for (int i = 0; i < (int)m.rows(); ++i)
    for (int j = 0; j < (int)m.cols(); ++j) {
      Sc x = m(i, j);
      if (!(x == x)) return std::numeric_limits<Sc>::infinity();
      if (x < 0) x = -x;
      if (x > r) r = x;
    }
  return r;
}

// NaN-safe running maximum: std::max(d, NaN) returns d
template <class A, class Bx> inline A accmax(A d, Bx x) { if (!(x == x)) return std::numeric_limits<A>::infinity(); return ((A)x > d) ? (A)x : d; }

// deviation of the rotation coefficients' norm from one, max over blocks
template <class G> ref::Real norm_dev(const G& x) {
  const ref::Group& g = RG<typename G::LieGroup>();
  ref::Real worst = 0;
  for (size_t b = 0; b < g.blocks.size(); ++b) {
    const ref::Block& B = g.blocks[b];
    int n = B.rotdim == 2 ? 2 : (B.rotdim == 3 ? 4 : 0);
    if (!n) continue;
    int o = g.offRep[b] + B.rot_c0;
    ref::Real s = 0;
    for (int i = 0; i < n; ++i) { ref::Real v = (ref::Real)x.coeffs()(o + i); s += v * v; }
    ref::Real d = std::fabs(std::sqrt(s) - 1);
    if (!(d == d)) d = std::numeric_limits<ref::Real>::infinity();
    if (d > worst) worst = d;
  }
  return worst;
}

}  // namespace vf
