#include "ref.hpp"
#include <cmath>
#include <cstdio>
#include <cstdlib>
#include <stdexcept>

namespace ref {

static inline bool bad(Real x) { return !(x == x) || std::isinf((double)x); }


static const Real PI_L = 3.14159265358979323846264338327950288419716939937510L;

Block make_block(Kind k, int n) {
  Block b;
  b.kind = k; b.n = 0; b.rot_t0 = -1; b.rot_c0 = -1; b.rotdim = 0;
  switch (k) {
    case RN:    b.n = n; b.N = n + 1; b.Dim = n; b.DoF = n; b.Rep = n; b.name = "R" + std::to_string(n); break;
    case SO2:   b.N = 2; b.Dim = 2; b.DoF = 1; b.Rep = 2;  b.rotdim = 2; b.rot_t0 = 0; b.rot_c0 = 0; b.name = "SO2"; break;
    case SE2:   b.N = 3; b.Dim = 2; b.DoF = 3; b.Rep = 4;  b.rotdim = 2; b.rot_t0 = 2; b.rot_c0 = 2; b.name = "SE2"; break;
    case SO3:   b.N = 3; b.Dim = 3; b.DoF = 3; b.Rep = 4;  b.rotdim = 3; b.rot_t0 = 0; b.rot_c0 = 0; b.name = "SO3"; break;
    case SE3:   b.N = 4; b.Dim = 3; b.DoF = 6; b.Rep = 7;  b.rotdim = 3; b.rot_t0 = 3; b.rot_c0 = 3; b.name = "SE3"; break;
    case SE23:  b.N = 5; b.Dim = 3; b.DoF = 9; b.Rep = 10; b.rotdim = 3; b.rot_t0 = 3; b.rot_c0 = 3; b.name = "SE_2_3"; break;
    case SGAL3: b.N = 5; b.Dim = 3; b.DoF = 10; b.Rep = 11; b.rotdim = 3; b.rot_t0 = 6; b.rot_c0 = 3; b.name = "SGal3"; break;
  }
  return b;
}

static Mat block_gen(const Block& b, int i);

Group::Group(const std::vector<Block>& b) : blocks(b) {
  offN.assign(1, 0); offDoF.assign(1, 0); offRep.assign(1, 0); offDim.assign(1, 0);
  for (size_t i = 0; i < b.size(); ++i) {
    offN.push_back(offN.back() + b[i].N);
    offDoF.push_back(offDoF.back() + b[i].DoF);
    offRep.push_back(offRep.back() + b[i].Rep);
    offDim.push_back(offDim.back() + b[i].Dim);
  }
  N = offN.back(); DoF = offDoF.back(); Rep = offRep.back(); Dim = offDim.back();
  if (b.size() == 1) name = b[0].name;
  else {
    name = "Bundle<";
    for (size_t i = 0; i < b.size(); ++i) name += (i ? "," : "") + b[i].name;
    name += ">";
  }
  // caches
  for (int i = 0; i < DoF; ++i) {
    size_t bb = 0;
    while (i >= offDoF[bb + 1]) ++bb;
    Mat G = Mat::Zero(N, N);
    G.block(offN[bb], offN[bb], blocks[bb].N, blocks[bb].N) = block_gen(blocks[bb], i - offDoF[bb]);
    gens_.push_back(G);
    gnorm2_.push_back((G.array() * G.array()).sum());
  }
  for (int i = 0; i < DoF; ++i) {
    Mat a(DoF, DoF);
    for (int j = 0; j < DoF; ++j) a.col(j) = vee(gens_[i] * gens_[j] - gens_[j] * gens_[i]);
    adbasis_.push_back(a);
  }
  rotmask_t_ = rot_tangent_mask();
}

// ---------------------------------------------------------------------------------------------
// documented generators, typed in from the paper (Sola et al., appendices A-D), the SE_2(3)
// description in the README/docs and the SGal(3) paper (Kelly, "All about the Galilean group")
// ---------------------------------------------------------------------------------------------
static Mat skew3(int i) {  // [e_i]x
  Mat S = Mat::Zero(3, 3);
  switch (i) {
    case 0: S(1, 2) = -1; S(2, 1) = 1; break;
    case 1: S(0, 2) = 1; S(2, 0) = -1; break;
    case 2: S(0, 1) = -1; S(1, 0) = 1; break;
  }
  return S;
}

static Mat block_gen(const Block& b, int i) {
  Mat G = Mat::Zero(b.N, b.N);
  switch (b.kind) {
    case RN: G(i, b.n) = 1; break;
    case SO2: G(0, 1) = -1; G(1, 0) = 1; break;
    case SE2:
      if (i < 2) G(i, 2) = 1; else { G(0, 1) = -1; G(1, 0) = 1; }
      break;
    case SO3: G = skew3(i); break;
    case SE3:
      if (i < 3) G(i, 3) = 1; else G.topLeftCorner(3, 3) = skew3(i - 3);
      break;
    case SE23:
      if (i < 3) G(i, 3) = 1;
      else if (i < 6) G.topLeftCorner(3, 3) = skew3(i - 3);
      else G(i - 6, 4) = 1;
      break;
    case SGAL3:
      if (i < 3) G(i, 4) = 1;            // rho: position column
      else if (i < 6) G(i - 3, 3) = 1;   // nu : velocity column
      else if (i < 9) G.topLeftCorner(3, 3) = skew3(i - 6);
      else G(3, 4) = 1;                  // iota: time
      break;
  }
  return G;
}

Mat Group::gen(int i) const {
  if (i < 0 || i >= DoF) throw std::out_of_range("ref::gen index");
  return gens_[i];
}

Mat Group::hat(const Vec& t) const {
  Mat A = Mat::Zero(N, N);
  for (int i = 0; i < DoF; ++i) if (t(i) != 0) A += t(i) * gens_[i];
  return A;
}

Vec Group::vee(const Mat& A, Real* resid) const {
  Vec t((int)gens_.size());
  for (int i = 0; i < (int)gens_.size(); ++i) t(i) = (gens_[i].array() * A.array()).sum() / gnorm2_[i];
  if (resid) *resid = (A - hat(t)).cwiseAbs().maxCoeff();
  return t;
}

Mat Group::ad(const Vec& t) const {
  // ad is linear in t: ad(t) = sum t_i ad(e_i), with ad(e_i) computed once from the commutators of the generators
  Mat a = Mat::Zero(DoF, DoF);
  for (int i = 0; i < DoF; ++i) if (t(i) != 0) a += t(i) * adbasis_[i];
  return a;
}

Mat Group::innerW() const {
  Mat W(DoF, DoF);
  for (int i = 0; i < DoF; ++i)
    for (int j = 0; j < DoF; ++j) W(i, j) = (gens_[i].transpose() * gens_[j]).trace();
  return W;
}

// ---------------------------------------------------------------------------------------------
Mat quat2rot(Real x, Real y, Real z, Real w) {
  // rotation of the *normalised* quaternion (documented: R = R(q/|q|))
  Real n = std::sqrt(x * x + y * y + z * z + w * w);
  x /= n; y /= n; z /= n; w /= n;
  Mat R(3, 3);
  R(0, 0) = 1 - 2 * (y * y + z * z); R(0, 1) = 2 * (x * y - z * w);     R(0, 2) = 2 * (x * z + y * w);
  R(1, 0) = 2 * (x * y + z * w);     R(1, 1) = 1 - 2 * (x * x + z * z); R(1, 2) = 2 * (y * z - x * w);
  R(2, 0) = 2 * (x * z - y * w);     R(2, 1) = 2 * (y * z + x * w);     R(2, 2) = 1 - 2 * (x * x + y * y);
  return R;
}

void rot2quat(const Mat& R, Real q[4]) {
  // Shepperd: take the largest of the four candidates for stability
  Real tr = R(0, 0) + R(1, 1) + R(2, 2);
  Real c[4] = {1 + R(0, 0) - R(1, 1) - R(2, 2), 1 - R(0, 0) + R(1, 1) - R(2, 2),
               1 - R(0, 0) - R(1, 1) + R(2, 2), 1 + tr};
  int k = 0;
  for (int i = 1; i < 4; ++i) if (c[i] > c[k]) k = i;
  Real s = 2 * std::sqrt(c[k]);
  switch (k) {
    case 3: q[3] = s / 4; q[0] = (R(2, 1) - R(1, 2)) / s; q[1] = (R(0, 2) - R(2, 0)) / s; q[2] = (R(1, 0) - R(0, 1)) / s; break;
    case 0: q[0] = s / 4; q[3] = (R(2, 1) - R(1, 2)) / s; q[1] = (R(0, 1) + R(1, 0)) / s; q[2] = (R(0, 2) + R(2, 0)) / s; break;
    case 1: q[1] = s / 4; q[3] = (R(0, 2) - R(2, 0)) / s; q[0] = (R(0, 1) + R(1, 0)) / s; q[2] = (R(1, 2) + R(2, 1)) / s; break;
    case 2: q[2] = s / 4; q[3] = (R(1, 0) - R(0, 1)) / s; q[0] = (R(0, 2) + R(2, 0)) / s; q[1] = (R(1, 2) + R(2, 1)) / s; break;
  }
  Real n = std::sqrt(q[0] * q[0] + q[1] * q[1] + q[2] * q[2] + q[3] * q[3]);
  for (int i = 0; i < 4; ++i) q[i] /= n;
  if (q[3] < 0) for (int i = 0; i < 4; ++i) q[i] = -q[i];
}

Vec rotlog3(const Mat& R) {
  Real q[4];
  rot2quat(R, q);
  Real vn = std::sqrt(q[0] * q[0] + q[1] * q[1] + q[2] * q[2]);
  Vec w(3);
  if (vn == 0) { w.setZero(); return w; }
  Real ang = 2 * std::atan2(vn, q[3]);  // in [0, pi]
  Real k = (vn < 1e-10L) ? (2 / q[3]) * (1 - vn * vn / (3 * q[3] * q[3])) : ang / vn;
  for (int i = 0; i < 3; ++i) w(i) = k * q[i];
  return w;
}

static Mat block_toM(const Block& b, const Vec& c) {
  Mat M = Mat::Identity(b.N, b.N);
  switch (b.kind) {
    case RN: for (int i = 0; i < b.n; ++i) M(i, b.n) = c(i); break;
    case SO2: {
      Real n = std::sqrt(c(0) * c(0) + c(1) * c(1));
      M(0, 0) = c(0) / n; M(0, 1) = -c(1) / n; M(1, 0) = c(1) / n; M(1, 1) = c(0) / n;
    } break;
    case SE2: {
      Real n = std::sqrt(c(2) * c(2) + c(3) * c(3));
      M(0, 0) = c(2) / n; M(0, 1) = -c(3) / n; M(1, 0) = c(3) / n; M(1, 1) = c(2) / n;
      M(0, 2) = c(0); M(1, 2) = c(1);
    } break;
    case SO3: M = quat2rot(c(0), c(1), c(2), c(3)); break;
    case SE3:
      M.topLeftCorner(3, 3) = quat2rot(c(3), c(4), c(5), c(6));
      for (int i = 0; i < 3; ++i) M(i, 3) = c(i);
      break;
    case SE23:  // coefficients (t, q, v); matrix [R t v; 0 1 0; 0 0 1]
      M.topLeftCorner(3, 3) = quat2rot(c(3), c(4), c(5), c(6));
      for (int i = 0; i < 3; ++i) { M(i, 3) = c(i); M(i, 4) = c(7 + i); }
      break;
    case SGAL3:  // coefficients (t, q, v, tau); matrix [R v t; 0 1 tau; 0 0 1]
      M.topLeftCorner(3, 3) = quat2rot(c(3), c(4), c(5), c(6));
      for (int i = 0; i < 3; ++i) { M(i, 3) = c(7 + i); M(i, 4) = c(i); }
      M(3, 4) = c(10);
      break;
  }
  return M;
}

static Vec block_fromM(const Block& b, const Mat& M, int hemi) {
  Vec c(b.Rep);
  Real q[4];
  switch (b.kind) {
    case RN: for (int i = 0; i < b.n; ++i) c(i) = M(i, b.n); break;
    case SO2: { Real n = std::hypot(M(0, 0), M(1, 0)); c(0) = M(0, 0) / n; c(1) = M(1, 0) / n; } break;
    case SE2: { Real n = std::hypot(M(0, 0), M(1, 0)); c(0) = M(0, 2); c(1) = M(1, 2); c(2) = M(0, 0) / n; c(3) = M(1, 0) / n; } break;
    case SO3: rot2quat(M, q); for (int i = 0; i < 4; ++i) c(i) = hemi * q[i]; break;
    case SE3:
      rot2quat(M.topLeftCorner(3, 3), q);
      for (int i = 0; i < 3; ++i) c(i) = M(i, 3);
      for (int i = 0; i < 4; ++i) c(3 + i) = hemi * q[i];
      break;
    case SE23:
      rot2quat(M.topLeftCorner(3, 3), q);
      for (int i = 0; i < 3; ++i) { c(i) = M(i, 3); c(7 + i) = M(i, 4); }
      for (int i = 0; i < 4; ++i) c(3 + i) = hemi * q[i];
      break;
    case SGAL3:
      rot2quat(M.topLeftCorner(3, 3), q);
      for (int i = 0; i < 3; ++i) { c(i) = M(i, 4); c(7 + i) = M(i, 3); }
      for (int i = 0; i < 4; ++i) c(3 + i) = hemi * q[i];
      c(10) = M(3, 4);
      break;
  }
  return c;
}

Mat Group::toM(const Vec& c) const {
  Mat M = Mat::Zero(N, N);
  for (size_t b = 0; b < blocks.size(); ++b)
    M.block(offN[b], offN[b], blocks[b].N, blocks[b].N) = block_toM(blocks[b], c.segment(offRep[b], blocks[b].Rep));
  return M;
}

Vec Group::fromM(const Mat& M, int hemi) const {
  Vec c(Rep);
  for (size_t b = 0; b < blocks.size(); ++b)
    c.segment(offRep[b], blocks[b].Rep) = block_fromM(blocks[b], M.block(offN[b], offN[b], blocks[b].N, blocks[b].N), hemi);
  return c;
}

// ---------------------------------------------------------------------------------------------
Mat expm(const Mat& A) {
  const int n = A.rows();
  // scale on the infinity norm
  Real nrm = A.cwiseAbs().rowwise().sum().maxCoeff();
  if (!(nrm == nrm) || std::isinf((double)nrm)) {
    Mat X = Mat::Constant(n, n, std::numeric_limits<Real>::quiet_NaN());
    return X;
  }
  int s = 0;
  if (nrm > 0.25L) s = (int)std::ceil(std::log2((double)(nrm / 0.25L)));
  if (s < 0) s = 0;
  Mat B = A;
  for (int i = 0; i < s; ++i) B *= 0.5L;  // exact scaling
  Mat X = Mat::Identity(n, n), T = Mat::Identity(n, n);
  for (int k = 1; k <= 40; ++k) {
    T = (T * B) / (Real)k;
    X += T;
    if (T.cwiseAbs().maxCoeff() == 0) break;
  }
  for (int i = 0; i < s; ++i) X = X * X;
  return X;
}

Mat logm_series(const Mat& M) {
  const int n = M.rows();
  Mat E = M - Mat::Identity(n, n);
  Mat X = Mat::Zero(n, n), P = Mat::Identity(n, n);
  for (int k = 1; k <= 60; ++k) {
    P = P * E;
    Mat term = P / (Real)k;
    if (k % 2 == 0) X -= term; else X += term;
    if (term.cwiseAbs().maxCoeff() <= 1e-30L * (1 + X.cwiseAbs().maxCoeff())) break;
  }
  return X;
}

// power-of-two diagonal scales d (d_j <= 1) such that every entry of D^-1 A D in the affine columns of each block is <= 1
Vec Group::balance_scales(const Mat& A) const {
  Vec d = Vec::Ones(N);
  for (size_t b = 0; b < blocks.size(); ++b) {
    const Block& B = blocks[b];
    const int o = offN[b];
    for (int j = B.rotdim; j < B.N; ++j) {
      Real lim = 1;  // d_j <= d_i / |A_ij| for every i < j of the block
      bool fin = true;
      for (int i = 0; i < j; ++i) {
        Real a = std::fabs(A(o + i, o + j));
        if (!(a == a) || std::isinf((double)a)) { fin = false; break; }
        if (a > 0) lim = std::min(lim, d(o + i) / a);
      }
      if (!fin || !(lim > 0)) continue;
      int e = 0; std::frexp(lim, &e);           // lim = m * 2^e, m in [0.5, 1)
      Real dj = std::ldexp((Real)1, e - 1);       // largest power of two <= lim
      if (dj > 1) dj = 1;
      d(o + j) = dj;
    }
  }
  return d;
}

Mat Group::exp(const Vec& t) const {
  // expm(hat t), evaluated on a diagonally balanced copy: with D = diag(d), d_j powers of two, expm(A) = D expm(D^-1 A D) D^-1
  // exactly.  The affine columns (translation / velocity / time) are scaled down to O(1) so that the number of squarings is
  // driven by the rotation size only; without this a translation of 1e6 costs 22 squarings, each of which doubles the rounding
  // error of the rotation block (measured by checks/selftest.cpp: 4e-16 instead of 1e-18 at |translation| = 1e3).
  Mat A = hat(t);
  Vec d = balance_scales(A);
  Mat As = A;
  for (int i = 0; i < N; ++i) for (int j = 0; j < N; ++j) if (A(i, j) != 0) As(i, j) = A(i, j) * (d(j) / d(i));
  Mat E = expm(As);
  for (int i = 0; i < N; ++i) for (int j = 0; j < N; ++j) if (i != j && E(i, j) != 0) E(i, j) = E(i, j) * (d(i) / d(j));
  return E;
}

Mat Group::inv(const Mat& M0) const {
  // block-wise LU (the matrix is block diagonal by construction) of the diagonally balanced matrix D^-1 M D (exact power-of-two
  // scaling): det M = 1, so a translation entry of 1e11 would otherwise force a pivot of 1e-11 and the rank-revealing
  // threshold of a full-pivoting LU would call the matrix singular (found by checks/selftest.cpp).
  Vec d = balance_scales(M0);
  Mat M = M0;
  for (int i = 0; i < N; ++i) for (int j = 0; j < N; ++j) if (i != j && M0(i, j) != 0) M(i, j) = M0(i, j) * (d(j) / d(i));
  Mat R = inv_unscaled(M);
  for (int i = 0; i < N; ++i) for (int j = 0; j < N; ++j) if (i != j && R(i, j) != 0) R(i, j) = R(i, j) * (d(i) / d(j));
  return R;
}

Mat Group::inv_unscaled(const Mat& M) const {
  Mat R = Mat::Zero(N, N);
  for (size_t b = 0; b < blocks.size(); ++b) {
    int o = offN[b], m = blocks[b].N;
    Mat B = M.block(o, o, m, m);
    R.block(o, o, m, m) = B.partialPivLu().inverse();
  }
  return R;
}

Mat Group::Adj(const Mat& M) const {
  Mat Mi = inv(M);
  Mat A(DoF, DoF);
  for (int j = 0; j < DoF; ++j) A.col(j) = vee(M * gens_[j] * Mi);
  return A;
}

Vec Group::act(const Mat& M, const Vec& p) const {
  Vec out(Dim);
  for (size_t b = 0; b < blocks.size(); ++b) {
    const Block& B = blocks[b];
    Vec h = Vec::Zero(B.N);
    for (int i = 0; i < B.Dim; ++i) h(i) = p(offDim[b] + i);
    switch (B.kind) {
      case RN: h(B.n) = 1; break;
      case SO2: case SO3: break;                // pure rotation: no homogeneous coordinate
      case SE2: h(2) = 1; break;
      case SE3: h(3) = 1; break;
      case SE23: h(3) = 1; h(4) = 0; break;     // documented: [p;1;0] (velocity does not act on points)
      case SGAL3: h(3) = 0; h(4) = 1; break;    // documented: [p;0;1] (event at time 0)
    }
    Vec r = M.block(offN[b], offN[b], B.N, B.N) * h;
    for (int i = 0; i < B.Dim; ++i) out(offDim[b] + i) = r(i);
  }
  return out;
}

Real Group::diff_act_terms(const Mat& M, const Vec& p, const Vec& y) const {
  Real m = 0;
  for (size_t b = 0; b < blocks.size(); ++b) {
    const Block& B = blocks[b];
    Vec h = Vec::Zero(B.N);
    for (int i = 0; i < B.Dim; ++i) h(i) = p(offDim[b] + i);
    switch (B.kind) {
      case RN: h(B.n) = 1; break;
      case SO2: case SO3: break;
      case SE2: h(2) = 1; break;
      case SE3: h(3) = 1; break;
      case SE23: h(3) = 1; h(4) = 0; break;
      case SGAL3: h(3) = 0; h(4) = 1; break;
    }
    const int o = offN[b];
    for (int i = 0; i < B.Dim; ++i) {
      Real e = 0, bound = 0;
      for (int k = 0; k < B.N; ++k) { e += M(o + i, o + k) * h(k); bound += (std::fabs(M(o + i, o + k)) + (is_rot_entry(o + i, o + k) ? 1 : 0)) * std::fabs(h(k)); }
      Real yi = y(offDim[b] + i);
      if (bad(yi) || bad(e)) return std::numeric_limits<Real>::infinity();
      Real d = std::fabs(yi - e);
      if (d == 0) continue;
      if (bound == 0) return std::numeric_limits<Real>::infinity();
      if (d / bound > m) m = d / bound;
    }
  }
  return m;
}

Mat Group::Jr(const Vec& t) const {
  Mat a = -ad(t);
  Mat J = Mat::Identity(DoF, DoF), T = Mat::Identity(DoF, DoF);
  for (int k = 1; k <= 300; ++k) {
    T = (T * a) / (Real)(k + 1);
    J += T;
    if (T.cwiseAbs().maxCoeff() <= 1e-26L * (1 + J.cwiseAbs().maxCoeff()) && k > 4) break;
  }
  return J;
}

Vec Group::log(const Mat& M, bool* ok) const {
  // seed: principal rotation log per block, linear parts zero
  Vec t = Vec::Zero(DoF);
  for (size_t b = 0; b < blocks.size(); ++b) {
    const Block& B = blocks[b];
    int o = offN[b];
    if (B.rotdim == 2) t(offDoF[b] + B.rot_t0) = std::atan2(M(o + 1, o), M(o, o));
    else if (B.rotdim == 3) t.segment(offDoF[b] + B.rot_t0, 3) = rotlog3(M.block(o, o, 3, 3));
  }
  return log_seeded(M, t, ok);
}

// J x = b with power-of-two row/column equilibration and partial pivoting (no rank decision): Jr couples rotation and linear
// coordinates with entries of the size of the linear parts, which makes a rank-revealing LU call it singular.
static Vec solve_equilibrated(const Mat& J, const Vec& b) {
  const int n = J.rows();
  Vec r = Vec::Ones(n), c = Vec::Ones(n);
  Mat A = J;
  for (int sweep = 0; sweep < 3; ++sweep) {
    for (int i = 0; i < n; ++i) { Real m = A.row(i).cwiseAbs().maxCoeff(); if (m > 0 && m == m && !std::isinf((double)m)) { int e; std::frexp(m, &e); Real f = std::ldexp((Real)1, -e); A.row(i) *= f; r(i) *= f; } }
    for (int j = 0; j < n; ++j) { Real m = A.col(j).cwiseAbs().maxCoeff(); if (m > 0 && m == m && !std::isinf((double)m)) { int e; std::frexp(m, &e); Real f = std::ldexp((Real)1, -e); A.col(j) *= f; c(j) *= f; } }
  }
  Vec y = A.partialPivLu().solve(r.cwiseProduct(b));  // (R J C) (C^-1 x) = R b
  return c.cwiseProduct(y);
}

Mat inverse_equilibrated(const Mat& J) {
  const int n = J.rows();
  Mat X(n, n);
  for (int j = 0; j < n; ++j) { Vec e = Vec::Zero(n); e(j) = 1; X.col(j) = solve_equilibrated(J, e); }
  return X;
}

Vec Group::log_seeded(const Mat& M, const Vec& seed, bool* ok) const {
  Vec t = seed;
  bool conv = false;
  Real prev_sz = std::numeric_limits<Real>::infinity();
  const Real LM = lin_scale_M(M);
  for (int it = 0; it < 40; ++it) {
    Mat D = logm_series(exp(-t) * M);
    Vec d = vee(D);
    Vec step = solve_equilibrated(Jr(t), d);
    t += step;
    // unit-consistent size of the step: rotation coordinates absolute, linear ones relative to the linear scale of t
    // (the entries of M carry an absolute rounding error of ulp(lin_scale_M), which bounds what any log can recover)
    Real lin = std::max(lin_scale_t(t), LM), sz = 0;
    for (int i = 0; i < DoF; ++i) { Real x = std::fabs(step(i)) / (rotmask_t_[i] ? (Real)1 : lin); if (!(x == x)) { sz = std::numeric_limits<Real>::infinity(); break; } if (x > sz) sz = x; }
    // converged: at the rounding floor of the extended-precision evaluation (1e-17), or stagnating below 1e-15 (three orders
    // below the tightest bar any check uses); anything else is reported as not converged
    if (sz <= 1e-17L) { conv = true; break; }
    if (it >= 3 && sz <= 1e-15L && sz >= 0.5L * prev_sz) { conv = true; break; }
    prev_sz = sz;
  }
  if (conv) {
    // never report convergence on the strength of a small step alone: exp(t) must reproduce M
    Mat E = exp(t);
    Real L = std::max(lin_scale_M(M), lin_scale_M(E));
    if (!(diffM(E, M, L) <= 1e-14L)) conv = false;
  }
  if (ok) *ok = conv;
  return t;
}

// ---------------------------------------------------------------------------------------------
std::vector<char> Group::rot_tangent_mask() const {
  std::vector<char> m(DoF, 0);
  for (size_t b = 0; b < blocks.size(); ++b) {
    const Block& B = blocks[b];
    if (B.rotdim == 2) m[offDoF[b] + B.rot_t0] = 1;
    if (B.rotdim == 3) for (int i = 0; i < 3; ++i) m[offDoF[b] + B.rot_t0 + i] = 1;
  }
  return m;
}

std::vector<char> Group::rot_coeff_mask() const {
  std::vector<char> m(Rep, 0);
  for (size_t b = 0; b < blocks.size(); ++b) {
    const Block& B = blocks[b];
    int n = B.rotdim == 2 ? 2 : (B.rotdim == 3 ? 4 : 0);
    for (int i = 0; i < n; ++i) m[offRep[b] + B.rot_c0 + i] = 1;
  }
  return m;
}

bool Group::is_rot_entry(int r, int c) const {
  for (size_t b = 0; b < blocks.size(); ++b) {
    int o = offN[b], d = blocks[b].rotdim;
    if (r >= o && r < o + d && c >= o && c < o + d) return true;
  }
  return false;
}

Real Group::lin_scale_M(const Mat& M) const {
  Real s = 1;
  for (int r = 0; r < N; ++r)
    for (int c = 0; c < N; ++c)
      if (!is_rot_entry(r, c)) { Real a = std::fabs(M(r, c)); if (a > s) s = a; }
  return s;
}

Real Group::lin_scale_t(const Vec& t) const {
  const std::vector<char>& m = rotmask_t_;
  Real s = 1;
  for (int i = 0; i < DoF; ++i) if (!m[i]) { Real a = std::fabs(t(i)); if (a > s) s = a; }
  return s;
}

Real Group::rot_angle(const Vec& t, int b) const {
  const Block& B = blocks[b];
  if (B.rotdim == 2) return std::fabs(t(offDoF[b] + B.rot_t0));
  if (B.rotdim == 3) return t.segment(offDoF[b] + B.rot_t0, 3).norm();
  return 0;
}

Real Group::max_rot_angle(const Vec& t) const {
  Real a = 0;
  for (size_t b = 0; b < blocks.size(); ++b) a = std::max(a, rot_angle(t, (int)b));
  return a;
}


Real Group::diffM(const Mat& A, const Mat& B, Real lin) const {
  Real m = 0;
  for (int r = 0; r < N; ++r)
    for (int c = 0; c < N; ++c) {
      Real d = std::fabs(A(r, c) - B(r, c));
      if (bad(A(r, c)) || bad(B(r, c))) return std::numeric_limits<Real>::infinity();
      if (!is_rot_entry(r, c)) d /= lin;
      if (d > m) m = d;
    }
  return m;
}

Real Group::difft(const Vec& a, const Vec& b, Real lin) const {
  const std::vector<char>& mk = rotmask_t_;
  Real m = 0;
  for (int i = 0; i < DoF; ++i) {
    if (bad(a(i)) || bad(b(i))) return std::numeric_limits<Real>::infinity();
    Real d = std::fabs(a(i) - b(i));
    if (!mk[i]) d /= lin;
    if (d > m) m = d;
  }
  return m;
}

Real Group::diff_prod_terms(const Mat& A, const Mat& B, const Mat& P) const {
  Mat E = A * B;
  Real m = 0;
  for (int i = 0; i < N; ++i)
    for (int j = 0; j < N; ++j) {
      if (is_rot_entry(i, j)) continue;
      if (bad(P(i, j)) || bad(E(i, j))) return std::numeric_limits<Real>::infinity();
      Real bound = 0;
      for (int k = 0; k < N; ++k) bound += (std::fabs(A(i, k)) + (is_rot_entry(i, k) ? 1 : 0)) * (std::fabs(B(k, j)) + (is_rot_entry(k, j) ? 1 : 0));
      Real d = std::fabs(P(i, j) - E(i, j));
      if (d == 0) continue;
      if (bound == 0) return std::numeric_limits<Real>::infinity();
      if (d / bound > m) m = d / bound;
    }
  return m;
}

Real Group::diffJ(const Mat& A, const Mat& B, Real lin) const {
  const std::vector<char>& mk = rotmask_t_;
  Real m = 0, nb = 1;
  for (int r = 0; r < DoF; ++r)
    for (int c = 0; c < DoF; ++c) {
      if (bad(A(r, c)) || bad(B(r, c))) return std::numeric_limits<Real>::infinity();
      Real f = 1;
      if (!mk[r]) f /= lin;
      if (!mk[c]) f *= lin;
      Real d = std::fabs(A(r, c) - B(r, c)) * f;
      Real e = std::fabs(B(r, c)) * f;
      if (d > m) m = d;
      if (e > nb) nb = e;
    }
  return m / nb;
}


Mat fd_jacobian(const Space& dom, const Space& cod, const Fn& f, const Mat& x, Real h, Real L) {
  Mat y0 = f(x);
  Mat y0inv;
  if (cod.g) y0inv = cod.g->inv(y0);
  Mat J(cod.dim, dom.dim);
  for (int j = 0; j < dom.dim; ++j) {
    Real hj = dom.rot[j] ? h : h * L;
    Vec col[2];
    for (int s = 0; s < 2; ++s) {
      Real e = s == 0 ? hj : -hj;
      Mat xp;
      if (dom.g) { Vec d = Vec::Zero(dom.dim); d(j) = e; xp = x * dom.g->exp(d); }
      else { xp = x; xp(j, 0) += e; }
      Mat yp = f(xp);
      if (cod.g) col[s] = cod.g->vee(logm_series(y0inv * yp));
      else col[s] = yp.col(0) - y0.col(0);
    }
    J.col(j) = (col[0] - col[1]) / (2 * hj);
  }
  return J;
}

Real diff_jac(const Mat& A, const Mat& B, const std::vector<char>& row_rot, const std::vector<char>& col_rot, Real L) {
  if (A.rows() != B.rows() || A.cols() != B.cols()) return std::numeric_limits<Real>::infinity();
  Real m = 0, nb = 1;
  for (int r = 0; r < A.rows(); ++r)
    for (int c = 0; c < A.cols(); ++c) {
      if (bad(A(r, c)) || bad(B(r, c))) return std::numeric_limits<Real>::infinity();
      Real f = 1;
      if (!row_rot[r]) f /= L;
      if (!col_rot[c]) f *= L;
      Real d = std::fabs(A(r, c) - B(r, c)) * f, e = std::fabs(B(r, c)) * f;
      if (d > m) m = d;
      if (e > nb) nb = e;
    }
  return m / nb;
}


Real diff_prod(const Mat& X, const Mat& Y, const Mat& E, const std::vector<char>& row_rot, const std::vector<char>& col_rot, Real L) {
  Mat P = X * Y, Nrm = X.cwiseAbs() * Y.cwiseAbs();
  if (P.rows() != E.rows() || P.cols() != E.cols()) return std::numeric_limits<Real>::infinity();
  Real nb = 1;
  for (int r = 0; r < P.rows(); ++r)
    for (int c = 0; c < P.cols(); ++c) {
      Real f = 1;
      if (!row_rot[r]) f /= L;
      if (!col_rot[c]) f *= L;
      Real e = std::fabs(E(r, c)) * f;
      if (e > nb) nb = e;
    }
  Real m = 0;
  for (int r = 0; r < P.rows(); ++r)
    for (int c = 0; c < P.cols(); ++c) {
      if (bad(P(r, c)) || bad(E(r, c))) return std::numeric_limits<Real>::infinity();
      Real f = 1;
      if (!row_rot[r]) f /= L;
      if (!col_rot[c]) f *= L;
      Real d = std::fabs(P(r, c) - E(r, c)) * f;
      Real n = std::max(nb, Nrm(r, c) * f);
      if (d / n > m) m = d / n;
    }
  return m;
}

}  // namespace ref
