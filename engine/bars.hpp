// Tolerance bars (DESIGN.md section 3).  Constants; never tuned per cell.
#pragma once
namespace vf {
template <class S> struct Bars;
template <> struct Bars<double> {
  static constexpr long double B1 = 1e-12L;  // algebraic
  static constexpr long double B2 = 1e-8L;   // exp
  static constexpr long double B3 = 1e-7L;   // log
  static constexpr long double B4 = 1e-6L;   // jacobian (relative)
  static constexpr long double eps_lib = 2.220446049250313e-14L;  // 100 * 2^-52 (B5)
  static constexpr long double u = 1.1102230246251565e-16L;
};
template <> struct Bars<float> {
  static constexpr long double B1 = 1e-4L;
  static constexpr long double B2 = 3e-4L;
  static constexpr long double B3 = 1e-3L;
  static constexpr long double B4 = 2e-2L;
  static constexpr long double eps_lib = 1.1920928955078125e-5L;  // 100 * 2^-23
  static constexpr long double u = 5.9604644775390625e-8L;
};
}  // namespace vf
