// Result recording for harness binaries: counters, per-check worst residual/bar ratio,
// failing cells (key + detail), samples.  Written as one JSON file per process.
#pragma once
#include <cmath>
#include <cstdio>
#include <cstdlib>
#include <cstring>
#include <map>
#include <sstream>
#include <string>
#include <vector>
#include <chrono>

namespace vf {

inline std::string jesc(const std::string& s) {
  std::string o;
  for (size_t i = 0; i < s.size(); ++i) {
    unsigned char c = s[i];
    if (c == '"' || c == '\\') { o += '\\'; o += c; }
    else if (c == '\n') o += "\\n";
    else if (c < 0x20) { char b[8]; snprintf(b, sizeof b, "\\u%04x", c); o += b; }
    else o += c;
  }
  return o;
}

inline std::string jnum(long double v) {
  if (!(v == v)) return "\"nan\"";
  if (std::isinf((double)v)) return v > 0 ? "\"inf\"" : "\"-inf\"";
  char b[64];
  snprintf(b, sizeof b, "%.6Lg", v);
  return b;
}

// hex-float list of an Eigen-like vector (exact, replayable)
template <class V> std::string hexvec(const V& v) {
  std::string o = "[";
  for (int i = 0; i < (int)v.size(); ++i) {
    char b[64];
    snprintf(b, sizeof b, "\"%a\"", (double)v(i));
    o += (i ? "," : "");
    o += b;
  }
  return o + "]";
}
template <class V> std::string decvec(const V& v) {
  std::string o = "[";
  for (int i = 0; i < (int)v.size(); ++i) {
    o += (i ? "," : "");
    o += jnum((long double)v(i));
  }
  return o + "]";
}
template <class M> std::string decmat(const M& m) {
  std::string o = "[";
  for (int i = 0; i < (int)m.rows(); ++i) {
    o += (i ? ",[" : "[");
    for (int j = 0; j < (int)m.cols(); ++j) { o += (j ? "," : ""); o += jnum((long double)m(i, j)); }
    o += "]";
  }
  return o + "]";
}

struct Args {
  std::string tier, out, replay, only;
  int shard_i, shard_n;
  long seed;
  double deadline_s;
  bool deadline_check_every_cell = false;  // set by harnesses whose cells are expensive (C14: one cell = one explored program)
  Args() : tier("quick"), shard_i(0), shard_n(1), seed(0), deadline_s(0) {}
  void parse(int argc, char** argv) {
    for (int i = 1; i < argc; ++i) {
      std::string a = argv[i];
      if (a == "--tier" && i + 1 < argc) tier = argv[++i];
      else if (a == "--out" && i + 1 < argc) out = argv[++i];
      else if (a == "--replay" && i + 1 < argc) replay = argv[++i];
      else if (a == "--only" && i + 1 < argc) only = argv[++i];
      else if (a == "--seed" && i + 1 < argc) seed = atol(argv[++i]);
      else if (a == "--deadline" && i + 1 < argc) deadline_s = atof(argv[++i]);
      else if (a == "--shard" && i + 1 < argc) { sscanf(argv[++i], "%d/%d", &shard_i, &shard_n); }
    }
  }
  bool thorough() const { return tier == "thorough"; }
};

struct Report {
  std::string prop, unit;
  Args args;
  long evaluations, product_size, nontrivial, states, transitions, skipped;
  bool exhaustive;
  std::map<std::string, long> counters;
  std::map<std::string, double> max_ratio;
  std::map<std::string, std::string> max_ratio_key;
  std::map<std::string, long> checks_done;
  std::map<std::string, long> fail_bucket;
  std::vector<std::string> fail_json;  // one JSON object per failing cell
  std::vector<std::string> samples;
  std::vector<std::string> notes;
  long cell_index;
  static const int DETAIL_PER_BUCKET = 8;
  static const long MAX_FAIL_KEYS = 200000;

  Report(const std::string& p, const std::string& u, const Args& a)
      : prop(p), unit(u), args(a), evaluations(0), product_size(0), nontrivial(0), states(0), transitions(0),
        skipped(0), exhaustive(true), cell_index(0) {}

  // sharding: cells are numbered in enumeration order; this process handles idx % n == i.
  // With --replay, only the cell whose key matches is run.
  // A global deadline (thorough tier) stops the enumeration: the remaining cells are skipped, the run is reported as not
  // exhaustive and still exits 0 -- a cap is reported as a cap.
  std::chrono::steady_clock::time_point t_start = std::chrono::steady_clock::now();
  bool deadline_hit = false;
  // true once the deadline has passed (also usable inside a long cell, e.g. the schedule explorer of C14)
  bool past_deadline() {
    if (args.deadline_s <= 0) return false;
    if (deadline_hit) return true;
    double el = std::chrono::duration<double>(std::chrono::steady_clock::now() - t_start).count();
    if (el > args.deadline_s) { deadline_hit = true; exhaustive = false; notes.push_back("deadline of " + std::to_string((long)args.deadline_s) + " s reached at cell " + std::to_string(cell_index) + ": remaining cells skipped"); }
    return deadline_hit;
  }
  bool mine() {
    long k = cell_index++;
    if (args.deadline_s > 0 && !deadline_hit && ((k & 15) == 0 || args.deadline_check_every_cell)) past_deadline();
    if (deadline_hit) { ++skipped; return false; }
    return (k % args.shard_n) == args.shard_i;
  }

  void count(const std::string& c, long n = 1) { counters[c] += n; }

  // replay filter: true when no --replay was given, or when the replayed full key ends with "/<cellkey>"
  bool want(const std::string& cellkey) const {
    if (args.replay.empty()) return true;
    const std::string& r = args.replay;
    if (r == cellkey) return true;
    if (r.size() < cellkey.size() + 1) return false;
    return r.compare(r.size() - cellkey.size(), cellkey.size(), cellkey) == 0 && r[r.size() - cellkey.size() - 1] == '/';
  }

  // judge residual against bar; returns true if ok
  bool judge(const std::string& check, long double resid, long double bar, const std::string& key) {
    ++evaluations;
    ++checks_done[check];
    double ratio = (resid == resid) ? (double)(resid / bar) : INFINITY;
    std::map<std::string, double>::iterator it = max_ratio.find(check);
    if (it == max_ratio.end() || ratio > it->second) { max_ratio[check] = ratio; max_ratio_key[check] = key; }
    return ratio <= 1.0;
  }

  // record a failing cell.  key = check/op/atoms (prop and unit are prepended)
  void fail(const std::string& check, const std::string& key, long double resid, long double bar,
            const std::string& detail_json) {
    std::string full = prop + "/" + check + "/" + unit + "/" + key;
    long& n = fail_bucket[check + "/" + unit];
    ++n;
    if ((long)fail_json.size() >= MAX_FAIL_KEYS) return;
    std::string o = "{\"key\":\"" + jesc(full) + "\",\"check\":\"" + jesc(check) + "\",\"residual\":" + jnum(resid) +
                    ",\"bar\":" + jnum(bar);
    if (n <= DETAIL_PER_BUCKET && !detail_json.empty()) o += ",\"detail\":" + detail_json;
    o += "}";
    fail_json.push_back(o);
  }

  void sample(const std::string& json) { if (samples.size() < 6) samples.push_back(json); }
  void note(const std::string& s) { notes.push_back(s); }

  void write() const {
    FILE* f = args.out.empty() ? stdout : fopen(args.out.c_str(), "w");
    if (!f) { perror("open out"); exit(3); }
    fprintf(f, "{\"property\":\"%s\",\"unit\":\"%s\",\"tier\":\"%s\",\"shard\":[%d,%d],\n", prop.c_str(), jesc(unit).c_str(),
            args.tier.c_str(), args.shard_i, args.shard_n);
    fprintf(f, "\"evaluations\":%ld,\"product_size\":%ld,\"nontrivial\":%ld,\"states\":%ld,\"transitions\":%ld,\"skipped\":%ld,\"exhaustive\":%s,\n",
            evaluations, product_size, nontrivial, states, transitions, skipped, exhaustive ? "true" : "false");
    fprintf(f, "\"counters\":{");
    bool first = true;
    for (std::map<std::string, long>::const_iterator it = counters.begin(); it != counters.end(); ++it) {
      fprintf(f, "%s\"%s\":%ld", first ? "" : ",", jesc(it->first).c_str(), it->second);
      first = false;
    }
    fprintf(f, "},\n\"checks_done\":{");
    first = true;
    for (std::map<std::string, long>::const_iterator it = checks_done.begin(); it != checks_done.end(); ++it) {
      fprintf(f, "%s\"%s\":%ld", first ? "" : ",", jesc(it->first).c_str(), it->second);
      first = false;
    }
    fprintf(f, "},\n\"max_ratio\":{");
    first = true;
    for (std::map<std::string, double>::const_iterator it = max_ratio.begin(); it != max_ratio.end(); ++it) {
      std::map<std::string, std::string>::const_iterator k = max_ratio_key.find(it->first);
      fprintf(f, "%s\"%s\":[%s,\"%s\"]", first ? "" : ",", jesc(it->first).c_str(), jnum(it->second).c_str(),
              k == max_ratio_key.end() ? "" : jesc(k->second).c_str());
      first = false;
    }
    fprintf(f, "},\n\"fail_buckets\":{");
    first = true;
    for (std::map<std::string, long>::const_iterator it = fail_bucket.begin(); it != fail_bucket.end(); ++it) {
      fprintf(f, "%s\"%s\":%ld", first ? "" : ",", jesc(it->first).c_str(), it->second);
      first = false;
    }
    fprintf(f, "},\n\"failures\":[");
    for (size_t i = 0; i < fail_json.size(); ++i) fprintf(f, "%s\n%s", i ? "," : "", fail_json[i].c_str());
    fprintf(f, "],\n\"samples\":[");
    for (size_t i = 0; i < samples.size(); ++i) fprintf(f, "%s\n%s", i ? "," : "", samples[i].c_str());
    fprintf(f, "],\n\"notes\":[");
    for (size_t i = 0; i < notes.size(); ++i) fprintf(f, "%s\"%s\"", i ? "," : "", jesc(notes[i]).c_str());
    fprintf(f, "]}\n");
    if (f != stdout) fclose(f);
  }
};

}  // namespace vf
