// Forward-mode dual numbers: a faithful clone of the ceres::Jet interface (value + N infinitesimals), with the math
// functions found by ADL exactly as manif's `using std::sin;` pattern expects, Eigen::NumTraits, and the two lines of
// glue manif/ceres/ceres.h adds for Jets (Constants<>::eps, internal::is_ad<>).
#pragma once
#include <Eigen/Core>
#include <cmath>
#include <limits>
#include <ostream>

namespace vfad {

template <int N> struct Dual {
  typedef Eigen::Matrix<double, N, 1> V;
  double a;
  V v;
  Dual() : a(0) { v.setZero(); }
  Dual(const double& value) : a(value) { v.setZero(); }  // NOLINT (implicit, as in ceres::Jet)
  Dual(const double& value, int k) : a(value) { v.setZero(); v[k] = 1.0; }
  template <class D> Dual(const double& value, const Eigen::DenseBase<D>& vv) : a(value), v(vv) {}
  Dual& operator+=(const Dual& y) { a += y.a; v += y.v; return *this; }
  Dual& operator-=(const Dual& y) { a -= y.a; v -= y.v; return *this; }
  Dual& operator*=(const Dual& y) { *this = *this * y; return *this; }
  Dual& operator/=(const Dual& y) { *this = *this / y; return *this; }
  Dual& operator+=(const double& s) { a += s; return *this; }
  Dual& operator-=(const double& s) { a -= s; return *this; }
  Dual& operator*=(const double& s) { a *= s; v *= s; return *this; }
  Dual& operator/=(const double& s) { a /= s; v /= s; return *this; }
};

template <int N> inline Dual<N> operator+(const Dual<N>& f) { return f; }
template <int N> inline Dual<N> operator-(const Dual<N>& f) { return Dual<N>(-f.a, -f.v); }
template <int N> inline Dual<N> operator+(const Dual<N>& f, const Dual<N>& g) { return Dual<N>(f.a + g.a, f.v + g.v); }
template <int N> inline Dual<N> operator+(const Dual<N>& f, double s) { return Dual<N>(f.a + s, f.v); }
template <int N> inline Dual<N> operator+(double s, const Dual<N>& f) { return Dual<N>(f.a + s, f.v); }
template <int N> inline Dual<N> operator-(const Dual<N>& f, const Dual<N>& g) { return Dual<N>(f.a - g.a, f.v - g.v); }
template <int N> inline Dual<N> operator-(const Dual<N>& f, double s) { return Dual<N>(f.a - s, f.v); }
template <int N> inline Dual<N> operator-(double s, const Dual<N>& f) { return Dual<N>(s - f.a, -f.v); }
template <int N> inline Dual<N> operator*(const Dual<N>& f, const Dual<N>& g) { return Dual<N>(f.a * g.a, f.a * g.v + f.v * g.a); }
template <int N> inline Dual<N> operator*(const Dual<N>& f, double s) { return Dual<N>(f.a * s, f.v * s); }
template <int N> inline Dual<N> operator*(double s, const Dual<N>& f) { return Dual<N>(f.a * s, f.v * s); }
template <int N> inline Dual<N> operator/(const Dual<N>& f, const Dual<N>& g) {
  const double gi = 1.0 / g.a, q = f.a * gi;
  return Dual<N>(q, (f.v - q * g.v) * gi);
}
template <int N> inline Dual<N> operator/(double s, const Dual<N>& g) { const double m = -s / (g.a * g.a); return Dual<N>(s / g.a, g.v * m); }
template <int N> inline Dual<N> operator/(const Dual<N>& f, double s) { const double si = 1.0 / s; return Dual<N>(f.a * si, f.v * si); }

#define VFAD_CMP(op)                                                                          \
  template <int N> inline bool operator op(const Dual<N>& f, const Dual<N>& g) { return f.a op g.a; } \
  template <int N> inline bool operator op(const double& s, const Dual<N>& g) { return s op g.a; }    \
  template <int N> inline bool operator op(const Dual<N>& f, const double& s) { return f.a op s; }
VFAD_CMP(<) VFAD_CMP(<=) VFAD_CMP(>) VFAD_CMP(>=) VFAD_CMP(==) VFAD_CMP(!=)
#undef VFAD_CMP

template <int N> inline Dual<N> abs(const Dual<N>& f) { return f.a < 0.0 ? -f : f; }
template <int N> inline Dual<N> fabs(const Dual<N>& f) { return abs(f); }
template <int N> inline Dual<N> log(const Dual<N>& f) { return Dual<N>(std::log(f.a), f.v * (1.0 / f.a)); }
template <int N> inline Dual<N> exp(const Dual<N>& f) { const double t = std::exp(f.a); return Dual<N>(t, t * f.v); }
template <int N> inline Dual<N> sqrt(const Dual<N>& f) { const double t = std::sqrt(f.a); return Dual<N>(t, f.v * (1.0 / (2.0 * t))); }
template <int N> inline Dual<N> cos(const Dual<N>& f) { return Dual<N>(std::cos(f.a), -std::sin(f.a) * f.v); }
template <int N> inline Dual<N> sin(const Dual<N>& f) { return Dual<N>(std::sin(f.a), std::cos(f.a) * f.v); }
template <int N> inline Dual<N> tan(const Dual<N>& f) { const double t = std::tan(f.a); return Dual<N>(t, (1.0 + t * t) * f.v); }
template <int N> inline Dual<N> acos(const Dual<N>& f) { return Dual<N>(std::acos(f.a), (-1.0 / std::sqrt(1.0 - f.a * f.a)) * f.v); }
template <int N> inline Dual<N> asin(const Dual<N>& f) { return Dual<N>(std::asin(f.a), (1.0 / std::sqrt(1.0 - f.a * f.a)) * f.v); }
template <int N> inline Dual<N> atan(const Dual<N>& f) { return Dual<N>(std::atan(f.a), (1.0 / (1.0 + f.a * f.a)) * f.v); }
template <int N> inline Dual<N> atan2(const Dual<N>& g, const Dual<N>& f) {
  const double t = 1.0 / (f.a * f.a + g.a * g.a);
  return Dual<N>(std::atan2(g.a, f.a), t * (f.a * g.v - g.a * f.v));
}
template <int N> inline Dual<N> pow(const Dual<N>& f, double g) { const double t = g * std::pow(f.a, g - 1.0); return Dual<N>(std::pow(f.a, g), t * f.v); }
template <int N> inline Dual<N> floor(const Dual<N>& f) { return Dual<N>(std::floor(f.a)); }
template <int N> inline Dual<N> ceil(const Dual<N>& f) { return Dual<N>(std::ceil(f.a)); }
template <int N> inline bool isfinite(const Dual<N>& f) { if (!std::isfinite(f.a)) return false; for (int i = 0; i < N; ++i) if (!std::isfinite(f.v[i])) return false; return true; }
template <int N> inline bool isnan(const Dual<N>& f) { if (std::isnan(f.a)) return true; for (int i = 0; i < N; ++i) if (std::isnan(f.v[i])) return true; return false; }
template <int N> inline bool isinf(const Dual<N>& f) { if (std::isinf(f.a)) return true; for (int i = 0; i < N; ++i) if (std::isinf(f.v[i])) return true; return false; }
template <int N> inline Dual<N> fmax(const Dual<N>& x, const Dual<N>& y) { return x < y ? y : x; }
template <int N> inline Dual<N> fmin(const Dual<N>& x, const Dual<N>& y) { return y < x ? y : x; }
template <int N> inline Dual<N> max(const Dual<N>& x, const Dual<N>& y) { return x < y ? y : x; }
template <int N> inline Dual<N> min(const Dual<N>& x, const Dual<N>& y) { return y < x ? y : x; }
template <int N> inline std::ostream& operator<<(std::ostream& s, const Dual<N>& z) { return s << "[" << z.a << " ; " << z.v.transpose() << "]"; }

}  // namespace vfad

namespace Eigen {
template <int N> struct NumTraits<vfad::Dual<N> > {
  typedef vfad::Dual<N> Real;
  typedef vfad::Dual<N> NonInteger;
  typedef vfad::Dual<N> Nested;
  typedef vfad::Dual<N> Literal;
  static vfad::Dual<N> dummy_precision() { return vfad::Dual<N>(1e-12); }
  static inline Real epsilon() { return Real(std::numeric_limits<double>::epsilon()); }
  static inline int digits10() { return std::numeric_limits<double>::digits10; }
  static inline Real highest() { return Real((std::numeric_limits<double>::max)()); }
  static inline Real lowest() { return Real(-(std::numeric_limits<double>::max)()); }
  enum { IsComplex = 0, IsInteger = 0, IsSigned = 1, ReadCost = 1, AddCost = 1, MulCost = 3, HasFloatingPoint = 1, RequireInitialization = 1 };
  template <bool Vectorized> struct Div { enum { AVX = false, Cost = 3 }; };
};
template <typename BinaryOp, int N> struct ScalarBinaryOpTraits<vfad::Dual<N>, double, BinaryOp> { typedef vfad::Dual<N> ReturnType; };
template <typename BinaryOp, int N> struct ScalarBinaryOpTraits<double, vfad::Dual<N>, BinaryOp> { typedef vfad::Dual<N> ReturnType; };
}  // namespace Eigen

// ---- the glue manif/ceres/ceres.h provides for ceres::Jet, reproduced for Dual
#include <manif/constants.h>
#include <manif/impl/traits.h>
namespace manif {
template <int N> struct Constants<vfad::Dual<N> > {
  static const vfad::Dual<N> eps;
};
template <int N> const vfad::Dual<N> Constants<vfad::Dual<N> >::eps = vfad::Dual<N>(Constants<double>::eps);
namespace internal {
template <int N> struct is_ad<vfad::Dual<N> > : std::integral_constant<bool, true> {};
}  // namespace internal
}  // namespace manif
