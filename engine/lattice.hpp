// E1: input lattices.  Pure reference-side code (no manif): atoms are long-double values with names;
// the consumer rounds them to the Scalar under test and feeds the *rounded* value to both manif
// and the reference model.
#pragma once
#include "ref.hpp"
#include <cmath>
#include <cstdio>
#include <set>
#include <string>
#include <vector>

namespace lat {

using ref::Real;
using ref::Vec;

static const Real PI = 3.14159265358979323846264338327950288419716939937510L;

enum Level { FULL = 0, REDUCED = 1, TINY = 2 };

struct SAtom { Real v; std::string name; };

struct Cfg {
  bool thorough;
  bool is_float;
  Real eps;  // the library's Constants<Scalar>::eps for the scalar under test
  Real rnd(Real x) const { return is_float ? (Real)(float)x : (Real)(double)x; }
  Real next(Real x) const {
    return is_float ? (Real)std::nextafter((float)x, (float)INFINITY) : (Real)std::nextafter((double)x, (double)INFINITY);
  }
  Real prev(Real x) const {
    return is_float ? (Real)std::nextafter((float)x, -(float)INFINITY) : (Real)std::nextafter((double)x, -(double)INFINITY);
  }
};

inline std::string fmt(const char* f, double v) { char b[64]; snprintf(b, sizeof b, f, v); return b; }

inline void push_unique(std::vector<SAtom>& out, const Cfg& c, Real v, const std::string& name) {
  Real r = c.rnd(v);
  for (size_t i = 0; i < out.size(); ++i) if (out[i].v == r) return;
  SAtom a; a.v = r; a.name = name; out.push_back(a);
}

// rotation magnitude atoms
inline std::vector<SAtom> theta_atoms(const Cfg& c, Level lv) {
  std::vector<SAtom> o;
  const Real s2 = std::sqrt(c.eps), s3 = std::cbrt(c.eps), s4 = std::sqrt(std::sqrt(c.eps));
  if (lv == TINY) {
    push_unique(o, c, 0, "0"); push_unique(o, c, 1e-9L, "1e-9"); push_unique(o, c, 2 * s2, "2*sqrt_eps");
    push_unique(o, c, 1e-3L, "1e-3"); push_unique(o, c, 1, "1"); push_unique(o, c, 3, "3");
    return o;
  }
  if (lv == REDUCED) {
    push_unique(o, c, 0, "0"); push_unique(o, c, 1e-9L, "1e-9");
    push_unique(o, c, s2 * (1 - 1e-3L), "sqrt_eps*(1-1e-3)"); push_unique(o, c, 2 * s2, "2*sqrt_eps");
    push_unique(o, c, 2 * s3, "2*cbrt_eps");
    push_unique(o, c, 1e-5L, "1e-5"); push_unique(o, c, 1e-3L, "1e-3"); push_unique(o, c, 0.1L, "0.1");
    push_unique(o, c, 1, "1"); push_unique(o, c, 3, "3"); push_unique(o, c, PI - 1e-6L, "pi-1e-6");
    if (c.thorough) {
      push_unique(o, c, 1e-7L, "1e-7"); push_unique(o, c, 1e-6L, "1e-6"); push_unique(o, c, 1e-4L, "1e-4");
      push_unique(o, c, 1e-2L, "1e-2"); push_unique(o, c, 2, "2"); push_unique(o, c, PI - 1e-3L, "pi-1e-3");
      push_unique(o, c, s4, "eps^(1/4)");
    }
    return o;
  }
  push_unique(o, c, 0, "0");
  if (c.is_float) { push_unique(o, c, 1.4e-45L, "denorm_min"); push_unique(o, c, 1e-38L, "1e-38"); push_unique(o, c, 1e-23L, "1e-23"); }
  else { push_unique(o, c, 4.9e-324L, "denorm_min"); push_unique(o, c, 1e-300L, "1e-300"); push_unique(o, c, 1e-160L, "1e-160"); }
  push_unique(o, c, 1e-20L, "1e-20"); push_unique(o, c, 1e-9L, "1e-9");
  const Real sw[3] = {s2, s3, s4};
  const char* swn[3] = {"sqrt_eps", "cbrt_eps", "eps^(1/4)"};
  for (int k = 0; k < 3; ++k) {
    Real s = c.rnd(sw[k]);
    push_unique(o, c, s * (1 - 1e-3L), std::string(swn[k]) + "*(1-1e-3)");
    push_unique(o, c, c.prev(s), std::string("prev(") + swn[k] + ")");
    push_unique(o, c, s, swn[k]);
    push_unique(o, c, c.next(s), std::string("next(") + swn[k] + ")");
    push_unique(o, c, s * (1 + 1e-3L), std::string(swn[k]) + "*(1+1e-3)");
    push_unique(o, c, 2 * s, std::string("2*") + swn[k]);
  }
  int per_decade = c.thorough ? 40 : 1;
  for (int d = -8; d < 0; ++d)
    for (int j = 0; j < per_decade; ++j) {
      Real v = std::pow((Real)10, (Real)d + (Real)j / per_decade);
      push_unique(o, c, v, j == 0 ? fmt("1e%.0f", (double)d) : fmt("10^%.3f", (double)d + (double)j / per_decade));
    }
  push_unique(o, c, 1, "1"); push_unique(o, c, PI / 2, "pi/2"); push_unique(o, c, 2, "2"); push_unique(o, c, 3, "3");
  if (c.thorough) for (int j = 1; j < 40; ++j) push_unique(o, c, 1 + (PI - 1) * j / 40, fmt("1+(pi-1)*%.0f/40", j));
  push_unique(o, c, PI - 1e-3L, "pi-1e-3"); push_unique(o, c, PI - 1e-6L, "pi-1e-6"); push_unique(o, c, PI - 1e-8L, "pi-1e-8");
  push_unique(o, c, PI - 1e-9L, "pi-1e-9"); push_unique(o, c, PI - 1e-12L, "pi-1e-12");
  push_unique(o, c, c.prev(c.rnd(PI)), "prev(pi)"); push_unique(o, c, PI, "pi"); push_unique(o, c, c.next(c.rnd(PI)), "next(pi)");
  push_unique(o, c, PI + 1e-9L, "pi+1e-9"); push_unique(o, c, PI + 1e-3L, "pi+1e-3");
  push_unique(o, c, 4, "4"); push_unique(o, c, 2 * PI - 1e-6L, "2pi-1e-6"); push_unique(o, c, 2 * PI - 1e-9L, "2pi-1e-9");
  push_unique(o, c, 2 * PI, "2pi"); push_unique(o, c, 2 * PI + 1e-6L, "2pi+1e-6"); push_unique(o, c, 3 * PI, "3pi");
  push_unique(o, c, 10, "10"); push_unique(o, c, 100, "100");
  return o;
}

struct Dir3 { Real v[3]; std::string name; };

inline std::vector<Dir3> rot_dirs3(const Cfg& c, Level lv) {
  std::vector<Dir3> o;
  const Real r2 = std::sqrt((Real)2), r3 = std::sqrt((Real)3), r14 = std::sqrt((Real)14);
  Dir3 all[10] = {
      {{1, 0, 0}, "+x"}, {{0, 0, -1}, "-z"}, {{1 / r3, 1 / r3, 1 / r3}, "111"}, {{1 / r14, -2 / r14, 3 / r14}, "1-23"},
      {{-1, 0, 0}, "-x"}, {{0, 1, 0}, "+y"}, {{0, -1, 0}, "-y"}, {{0, 0, 1}, "+z"}, {{1 / r2, 1 / r2, 0}, "110"},
      {{1e-9L, 0, std::sqrt(1 - 1e-18L)}, "1e-9:0:1"}};
  int n = (lv == FULL) ? (c.thorough ? 10 : 4) : (lv == REDUCED ? 2 : 1);
  if (lv == REDUCED) { o.push_back(all[3]); o.push_back(all[1]); return o; }
  if (lv == TINY) { o.push_back(all[3]); return o; }
  for (int i = 0; i < n; ++i) o.push_back(all[i]);
  return o;
}

inline std::vector<SAtom> lin_mags(const Cfg& c, Level lv, bool with_1e9 = false) {
  std::vector<SAtom> o;
  if (lv == TINY) { push_unique(o, c, 0, "0"); push_unique(o, c, 1, "1e0"); push_unique(o, c, 1e3L, "1e3"); return o; }
  if (lv == REDUCED) {
    push_unique(o, c, 0, "0"); push_unique(o, c, 1e-3L, "1e-3"); push_unique(o, c, 1, "1e0"); push_unique(o, c, 1e3L, "1e3");
    if (c.thorough) { push_unique(o, c, 1e-8L, "1e-8"); push_unique(o, c, 1e6L, "1e6"); }
    return o;
  }
  push_unique(o, c, 0, "0"); push_unique(o, c, 0.25L * c.eps, "eps/4"); push_unique(o, c, 1e-8L, "1e-8"); push_unique(o, c, 1e-3L, "1e-3"); push_unique(o, c, 1, "1e0");
  push_unique(o, c, 1e3L, "1e3"); push_unique(o, c, 1e6L, "1e6");
  if (with_1e9) push_unique(o, c, 1e9L, "1e9");
  return o;
}

// a tangent atom: values (already rounded to the scalar under test) + name + metadata
struct TAtom {
  Vec t;
  std::string key;
  Real theta;  // max rotation magnitude over blocks
  Real lin;    // max(1, |linear coords|)
};

inline void cross3(const Real a[3], const Real b[3], Real o[3]) {
  o[0] = a[1] * b[2] - a[2] * b[1]; o[1] = a[2] * b[0] - a[0] * b[2]; o[2] = a[0] * b[1] - a[1] * b[0];
}

// linear direction relative to the rotation axis: 0 parallel, 1 orthogonal, 2 generic
inline void lin_dir3(int which, const Real axis[3], Real o[3]) {
  static const Real gen[3] = {0.36L, -0.48L, 0.8L};
  if (which == 0) { o[0] = axis[0]; o[1] = axis[1]; o[2] = axis[2]; return; }
  if (which == 2) { o[0] = gen[0]; o[1] = gen[1]; o[2] = gen[2]; return; }
  Real h[3] = {0.6L, 0.8L, 0}; if (std::fabs(axis[0] * h[0] + axis[1] * h[1]) > 0.9L) { h[0] = 0; h[1] = 0.6L; h[2] = 0.8L; }
  cross3(axis, h, o);
  Real n = std::sqrt(o[0] * o[0] + o[1] * o[1] + o[2] * o[2]);
  for (int i = 0; i < 3; ++i) o[i] /= n;
}
static const char* LDN[3] = {"par", "orth", "gen"};

// ---- per-block tangent lattices -------------------------------------------------------------
inline std::vector<TAtom> block_tangents(const ref::Block& B, const Cfg& c, Level lv, Real theta_max = 1e30L, bool with_1e9 = false) {
  std::vector<TAtom> out;
  std::vector<SAtom> th = theta_atoms(c, lv);
  std::vector<SAtom> lm = lin_mags(c, lv, with_1e9);
  std::vector<Dir3> rd = rot_dirs3(c, lv);
  const int nld = (lv == TINY) ? 1 : 3;
  static const Real g2[3] = {-0.8L, 0.36L, 0.48L};
  auto fin = [&](TAtom& a) {
    for (int i = 0; i < a.t.size(); ++i) a.t(i) = c.rnd(a.t(i));
    out.push_back(a);
  };
  switch (B.kind) {
    case ref::RN: {
      for (size_t l = 0; l < lm.size(); ++l)
        for (int d = 0; d < 3; ++d) {
          if (lm[l].v == 0 && d > 0) continue;
          TAtom a; a.t = Vec::Zero(B.n); a.theta = 0; a.lin = std::max((Real)1, lm[l].v);
          for (int i = 0; i < B.n; ++i)
            a.t(i) = lm[l].v * (d == 0 ? (i == 0 ? 1 : 0) : (d == 1 ? 1 / std::sqrt((Real)B.n) : ((i % 2) ? -0.7L : 0.3L) * (1 + 0.1L * i)));
          a.key = "lin=" + lm[l].name + ",ldir=" + std::to_string(d);
          fin(a);
        }
    } break;
    case ref::SO2: {
      for (size_t i = 0; i < th.size(); ++i)
        for (int sg = 1; sg >= -1; sg -= 2) {
          if (th[i].v > theta_max) continue;
          if (th[i].v == 0 && sg < 0) continue;
          TAtom a; a.t = Vec::Zero(1); a.t(0) = sg * th[i].v; a.theta = th[i].v; a.lin = 1;
          a.key = "th=" + th[i].name + ",sg=" + (sg > 0 ? "+" : "-");
          fin(a);
        }
    } break;
    case ref::SE2: {
      for (size_t i = 0; i < th.size(); ++i)
        for (int sg = 1; sg >= -1; sg -= 2)
          for (size_t l = 0; l < lm.size(); ++l)
            for (int d = 0; d < nld; ++d) {
              if (th[i].v > theta_max) continue;
              if (th[i].v == 0 && sg < 0) continue;
              if (lm[l].v == 0 && d > 0) continue;
              static const Real dd[3][2] = {{1, 0}, {0, -1}, {0.6L, -0.8L}};
              TAtom a; a.t = Vec::Zero(3); a.t(0) = lm[l].v * dd[d][0]; a.t(1) = lm[l].v * dd[d][1]; a.t(2) = sg * th[i].v;
              a.theta = th[i].v; a.lin = std::max((Real)1, lm[l].v);
              a.key = "th=" + th[i].name + ",sg=" + (sg > 0 ? "+" : "-") + ",lin=" + lm[l].name + ",ldir=" + std::to_string(d);
              fin(a);
            }
    } break;
    case ref::SO3: {
      for (size_t i = 0; i < th.size(); ++i)
        for (size_t r = 0; r < rd.size(); ++r) {
          if (th[i].v > theta_max) continue;
          if (th[i].v == 0 && r > 0) continue;
          TAtom a; a.t = Vec::Zero(3); for (int k = 0; k < 3; ++k) a.t(k) = th[i].v * rd[r].v[k];
          a.theta = th[i].v; a.lin = 1; a.key = "th=" + th[i].name + ",rdir=" + rd[r].name;
          fin(a);
        }
    } break;
    case ref::SE3: case ref::SE23: case ref::SGAL3: {
      // second/third linear parts
      struct Extra { Real a_scale; int a_mode; Real iota; std::string name; };  // a_mode 0: zero, 1: unit, 2: L
      std::vector<Extra> ex;
      if (B.kind == ref::SE3) ex.push_back(Extra{0, 0, 0, ""});
      if (B.kind == ref::SE23) { ex.push_back(Extra{0, 0, 0, ",a=0"}); ex.push_back(Extra{1, 2, 0, ",a=L"}); if (lv == FULL) ex.push_back(Extra{1, 1, 0, ",a=1"}); }
      if (B.kind == ref::SGAL3) {
        if (lv == FULL) {
          const Real io[3] = {0, 0.1L, -10}; const char* ion[3] = {"0", "0.1", "-10"};
          for (int m = 0; m < 3; ++m) for (int q = 0; q < 3; ++q) ex.push_back(Extra{1, m, io[q], std::string(",nu=") + (m == 0 ? "0" : (m == 1 ? "1" : "L")) + ",iota=" + ion[q]});
          ex.push_back(Extra{1, 1, 0.25L * c.eps, ",nu=1,iota=eps/4"}); ex.push_back(Extra{1, 2, -0.25L * c.eps, ",nu=L,iota=-eps/4"});
        } else {
          // a time component that is non-zero but below the library's eps (a shortcut keyed on |t| <= eps instead of t == 0)
          ex.push_back(Extra{1, 1, 0.25L * c.eps, ",nu=1,iota=eps/4"});
          ex.push_back(Extra{1, 0, 0, ",nu=0,iota=0"}); ex.push_back(Extra{1, 2, 0.1L, ",nu=L,iota=0.1"}); ex.push_back(Extra{1, 1, -10, ",nu=1,iota=-10"});
        }
      }
      for (size_t i = 0; i < th.size(); ++i)
        for (size_t r = 0; r < rd.size(); ++r)
          for (size_t l = 0; l < lm.size(); ++l)
            for (int d = 0; d < nld; ++d)
              for (size_t e = 0; e < ex.size(); ++e) {
                if (th[i].v > theta_max) continue;
                if (th[i].v == 0 && r > 0) continue;
                if (lm[l].v == 0 && d > 0) continue;
                Real ld[3]; lin_dir3(lv == TINY ? 2 : d, rd[r].v, ld);
                TAtom a; a.t = Vec::Zero(B.DoF); a.theta = th[i].v;
                Real L = lm[l].v;
                int rot0 = B.rot_t0;
                for (int k = 0; k < 3; ++k) { a.t(k) = L * ld[k]; a.t(rot0 + k) = th[i].v * rd[r].v[k]; }
                Real am = ex[e].a_mode == 0 ? 0 : (ex[e].a_mode == 1 ? 1 : L);
                if (B.kind == ref::SE23) for (int k = 0; k < 3; ++k) a.t(6 + k) = am * g2[k];
                if (B.kind == ref::SGAL3) { for (int k = 0; k < 3; ++k) a.t(3 + k) = am * g2[k]; a.t(9) = ex[e].iota; }
                a.lin = std::max((Real)1, std::max(L, am));
                if (B.kind == ref::SGAL3) a.lin = std::max(a.lin, std::max(std::fabs(ex[e].iota), std::fabs(ex[e].iota) * am));
                a.key = "th=" + th[i].name + ",rdir=" + rd[r].name + ",lin=" + lm[l].name + ",ldir=" + LDN[lv == TINY ? 2 : d] + ex[e].name;
                fin(a);
              }
    } break;
  }
  return out;
}

// tangent lattice of a (possibly bundled) group.  Single block: the full product.  Bundle: the
// "staggered diagonal": atom k of the bundle takes atom (k*stride_b + b) mod len_b of block b, for
// k < max_b len_b  (every atom of every block appears at least once, next to varying neighbours).
inline std::vector<TAtom> tangents(const ref::Group& g, const Cfg& c, Level lv, Real theta_max = 1e30L, bool with_1e9 = false) {
  if (g.blocks.size() == 1) return block_tangents(g.blocks[0], c, lv, theta_max, with_1e9);
  std::vector<std::vector<TAtom> > per;
  size_t mx = 0;
  for (size_t b = 0; b < g.blocks.size(); ++b) {
    per.push_back(block_tangents(g.blocks[b], c, lv == FULL ? REDUCED : lv, theta_max, with_1e9));
    mx = std::max(mx, per.back().size());
  }
  std::vector<TAtom> out;
  for (size_t k = 0; k < mx; ++k) {
    TAtom a; a.t = Vec::Zero(g.DoF); a.theta = 0; a.lin = 1;
    for (size_t b = 0; b < g.blocks.size(); ++b) {
      const TAtom& s = per[b][(k * (2 * b + 1) + b) % per[b].size()];
      a.t.segment(g.offDoF[b], g.blocks[b].DoF) = s.t;
      a.theta = std::max(a.theta, s.theta); a.lin = std::max(a.lin, s.lin);
      a.key += (b ? "|" : "") + s.key;
    }
    out.push_back(a);
  }
  return out;
}

// deterministic thinning of a table: every stride-th cell starting at (seed mod stride); the stride is chosen
// coprime to 2 and 3 (the inner loop lengths of the tables) so that every atom of every axis keeps appearing
template <class V> std::vector<V> thin(const std::vector<V>& v, size_t cap, long seed = 0) {
  if (v.size() <= cap || cap == 0) return v;
  size_t stride = (v.size() + cap - 1) / cap;
  while (stride % 2 == 0 || stride % 3 == 0) ++stride;
  std::vector<V> out;
  for (size_t i = (size_t)(seed < 0 ? -seed : seed) % stride; i < v.size(); i += stride) out.push_back(v[i]);
  return out;
}

// an element atom: coefficient vector (long double, unit rotation parts) + key
struct XAtom {
  Vec c;
  std::string key;
  Real theta, lin;
  int hemi;
};

// elements = ref-exp of tangent atoms, in both hemispheres of the double cover (3-D rotations);
// for 2-D rotations the coefficient vector is unique.
inline std::vector<XAtom> elements(const ref::Group& g, const Cfg& c, Level lv, Real theta_max = 1e30L, bool both_hemi = true, bool with_1e9 = false) {
  std::vector<TAtom> ts = tangents(g, c, lv, theta_max, with_1e9);
  bool has3 = false;
  for (size_t b = 0; b < g.blocks.size(); ++b) if (g.blocks[b].rotdim == 3) has3 = true;
  std::vector<XAtom> out;
  for (size_t i = 0; i < ts.size(); ++i) {
    ref::Mat M = g.exp(ts[i].t);
    for (int h = 1; h >= -1; h -= 2) {
      if (h < 0 && (!has3 || !both_hemi)) continue;
      XAtom x; x.c = g.fromM(M, h); x.theta = ts[i].theta; x.lin = g.lin_scale_M(M); x.hemi = h;
      x.key = ts[i].key + (has3 ? (h > 0 ? ",w>=0" : ",w<0") : "");
      out.push_back(x);
    }
  }
  // exact-coefficient atoms: rotation coefficients made of exact 0 / +-1 / signed zero (identity, quarter and half turns, the
  // w == 0 boundary of the double cover) — the inputs on which a shortcut keyed on `coefficient == 0` would fire; never produced
  // by cos/sin of a floating-point angle.  Linear parts: zero and O(1).
  {
    static const Real r2[][2] = {{1, 0}, {-1, 0}, {-1, -0.0L}, {0, 1}, {0, -1}, {1, -0.0L}};
    static const Real r2th[] = {0, 3.14159265358979323846264338327950288L, 3.14159265358979323846264338327950288L, 1.57079632679489661923L, 1.57079632679489661923L, 0};
    static const Real r3[][4] = {{0, 0, 0, 1}, {1, 0, 0, 0}, {0, -1, 0, 0}, {0, 0, 1, 0}, {0, 0.6L, 0, 0.8L}, {0.6L, 0, 0, 0.8L}};
    static const Real r3th[] = {0, 3.14159265358979323846264338327950288L, 3.14159265358979323846264338327950288L, 3.14159265358979323846264338327950288L, 1.2870022175865687L, 1.2870022175865687L};
    const int n2 = 6, n3 = 6, nk = has3 ? n3 : n2;
    bool anyrot = false;
    for (size_t b = 0; b < g.blocks.size(); ++b) if (g.blocks[b].rotdim) anyrot = true;
    if (anyrot)
      for (int k = 0; k < nk; ++k)
        for (int l = 0; l < 2; ++l) {
          Vec t = Vec::Zero(g.DoF);
          for (size_t b = 0; b < g.blocks.size(); ++b) {
            const ref::Block& B = g.blocks[b];
            for (int i = 0; i < B.DoF; ++i) {
              bool rot = B.rotdim == 3 ? (i >= B.rot_t0 && i < B.rot_t0 + 3) : (B.rotdim == 2 && i == B.rot_t0);
              if (!rot) t(g.offDoF[b] + i) = (Real)l * (Real)(0.5L + 0.25L * ((i * 5 + (int)b) % 7)) * ((i % 2) ? -1 : 1);
            }
          }
          // hemisphere twins adjacent (h=+1 then h=-1: every quaternion coefficient negated, +0 becomes -0), as in the main table
          for (int h = 1; h >= -1; h -= 2) {
            if (h < 0 && (!has3 || !both_hemi)) continue;
            XAtom x; x.c = g.fromM(g.exp(t), +1); x.theta = 0; x.hemi = h;
            std::string rk;
            for (size_t b = 0; b < g.blocks.size(); ++b) {
              const ref::Block& B = g.blocks[b];
              if (B.rotdim == 2) { int kk = (k + (int)b) % n2; x.c(g.offRep[b] + B.rot_c0) = r2[kk][0]; x.c(g.offRep[b] + B.rot_c0 + 1) = r2[kk][1]; x.theta = std::max(x.theta, r2th[kk]); rk += "c" + std::to_string(kk); }
              if (B.rotdim == 3) { int kk = (k + (int)b) % n3; for (int q = 0; q < 4; ++q) x.c(g.offRep[b] + B.rot_c0 + q) = (h > 0 ? r3[kk][q] : -r3[kk][q]); x.theta = std::max(x.theta, r3th[kk]); rk += "q" + std::to_string(kk); }
            }
            if (x.theta > theta_max) continue;
            x.lin = g.lin_scale_M(g.toM(x.c));
            x.key = "exact_coeffs=" + rk + ",lin=" + std::to_string(l) + (has3 ? (h > 0 ? ",w>=0" : ",w<0") : "");
            out.push_back(x);
          }
        }
  }
  return out;
}

}  // namespace lat
