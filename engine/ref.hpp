// RefAlg: generic matrix-Lie-group calculator in extended precision (long double).
// It knows only (a) the documented generators of each group, (b) the documented
// coefficient-vector -> matrix embedding and (c) the homogeneous embedding of points.
// Everything else is plain dense linear algebra (matrix series, LU, Newton).
// It shares no closed form with manif: it is the oracle, manif is the subject.
#pragma once
#include <Eigen/Dense>
#include <string>
#include <vector>

namespace ref {

typedef long double Real;
typedef Eigen::Matrix<Real, Eigen::Dynamic, Eigen::Dynamic> Mat;
typedef Eigen::Matrix<Real, Eigen::Dynamic, 1> Vec;

enum Kind { RN, SO2, SE2, SO3, SE3, SE23, SGAL3 };

// One factor of a (possibly bundled) group.
struct Block {
  Kind kind;
  int n;       // only for RN
  int N;       // size of the matrix in which hat() lives
  int Dim, DoF, Rep;
  int rotdim;  // 0, 2 or 3: size of the rotation block in the top-left corner
  int rot_t0;  // index (inside the block tangent) of the first rotation coordinate, -1 if none
  int rot_c0;  // index (inside the block coefficient vector) of the first rotation coefficient
  std::string name;
};

Block make_block(Kind k, int n = 0);

struct Group {
  std::vector<Block> blocks;
  std::vector<int> offN, offDoF, offRep, offDim;  // prefix sums, size blocks+1
  int N, DoF, Rep, Dim;
  std::string name;
  // caches (filled by the constructor from the documented generator table)
  std::vector<Mat> gens_;
  std::vector<Real> gnorm2_;
  std::vector<Mat> adbasis_;  // adbasis_[i] = ad(e_i)
  std::vector<char> rotmask_t_;

  Group() : N(0), DoF(0), Rep(0), Dim(0) {}
  explicit Group(const std::vector<Block>& b);
  static Group single(Kind k, int n = 0) { return Group(std::vector<Block>(1, make_block(k, n))); }

  // --- Lie algebra ---
  Mat gen(int i) const;                 // documented generator, N x N (block embedded)
  Mat hat(const Vec& t) const;          // sum t_i gen(i)
  Vec vee(const Mat& A, Real* resid = nullptr) const;  // Frobenius projection on the generators
  Mat ad(const Vec& t) const;           // columns vee([hat t, G_j])
  Mat innerW() const;                   // W_ij = tr(G_i^T G_j)

  // --- group ---
  Mat toM(const Vec& coeffs) const;     // documented embedding of the coefficient vector
  Vec fromM(const Mat& M, int hemi = +1) const;  // inverse embedding; hemi=-1 flips the rotation coefficients (3-D)
  Mat exp(const Vec& t) const;          // expm(hat t)
  Vec log(const Mat& M, bool* ok = nullptr) const;     // principal log (rotation angle <= pi)
  Vec log_seeded(const Mat& M, const Vec& seed, bool* ok = nullptr) const;  // Newton on expm from a given seed (continuous branch)
  Mat inv(const Mat& M) const;          // LU
  Mat inv_unscaled(const Mat& M) const;
  Vec balance_scales(const Mat& A) const;  // power-of-two diagonal scales used by exp() and inv()
  Mat Adj(const Mat& M) const;          // columns vee(M G_j M^-1)
  Vec act(const Mat& M, const Vec& p) const;  // homogeneous action, per block
  Mat Jr(const Vec& t) const;           // sum (-ad)^k/(k+1)!
  Mat Jl(const Vec& t) const { return Jr(-t); }

  // --- bookkeeping for unit-consistent comparison ---
  std::vector<char> rot_tangent_mask() const;   // size DoF: 1 for rotation coordinates
  std::vector<char> rot_coeff_mask() const;     // size Rep: 1 for rotation coefficients
  Real lin_scale_M(const Mat& M) const;         // max(1, max |entry| outside the rotation blocks)
  Real lin_scale_t(const Vec& t) const;         // max(1, max |t_i| over non-rotation coordinates)
  Real rot_angle(const Vec& t, int block) const;     // rotation magnitude of a block of a tangent
  Real max_rot_angle(const Vec& t) const;
  bool is_rot_entry(int r, int c) const;        // (r,c) inside some block's rotation block
  // max over entries of |A-B| / s, with s = 1 in rotation blocks and `lin` elsewhere
  Real diffM(const Mat& A, const Mat& B, Real lin) const;
  // same for tangents
  Real difft(const Vec& a, const Vec& b, Real lin) const;
  // Jacobian (DoF x DoF): rows/cols scaled (linear rows divided by lin, linear cols multiplied by lin)
  Real diffJ(const Mat& A, const Mat& B, Real lin) const;
  // componentwise (term-aware) residual of a product of two embedded elements, evaluated on the entries OUTSIDE the rotation
  // blocks: max_ij |P_ij - (AB)_ij| / sum_k (|A_ik| + rot(i,k)) (|B_kj| + rot(k,j)).  The rotation entries of A and B carry an
  // ABSOLUTE rounding error of one unit (they come from a unit quaternion / complex number), hence the +rot terms; every other
  // entry is an input.  Any evaluation that computes each term of each entry to working precision passes with a small constant;
  // a term that is dropped or mis-scaled fails even when it is small compared with the largest entry of the matrix.
  Real diff_prod_terms(const Mat& A, const Mat& B, const Mat& P) const;
  // same idea for the action on a point: max_i |y_i - (M h)_i| / sum_k (|M_ik| + rot(i,k)) |h_k|, h = documented homogeneous embedding of p
  Real diff_act_terms(const Mat& M, const Vec& p, const Vec& y) const;
};

Mat expm(const Mat& A);
Mat inverse_equilibrated(const Mat& J);  // inverse by power-of-two row/column equilibration + partial pivoting (no rank decision)
Mat logm_series(const Mat& M);   // log of a matrix close to identity (or unipotent)
Vec rotlog3(const Mat& R);       // principal rotation vector of a 3x3 rotation matrix
Mat quat2rot(Real x, Real y, Real z, Real w);
void rot2quat(const Mat& R, Real q[4]);  // Shepperd, w >= 0

}  // namespace ref
#include <functional>
namespace ref {
// numerical right-Jacobian of a map between groups/vectors by central differences of the
// reference model itself:  J(:,j) = [ f(x (+) h e_j) (-) f(x (+) -h e_j) ] / 2h
// Domain and codomain are either a group (element given as matrix) or a plain vector space.
struct Space {
  const Group* g;  // nullptr => plain vector space of dimension dim
  int dim;
  std::vector<char> rot;  // per coordinate: 1 = rotation-like (unit scale), 0 = linear (scaled by L)
  static Space group(const Group& G) { Space s; s.g = &G; s.dim = G.DoF; s.rot = G.rot_tangent_mask(); return s; }
  static Space tangent(const Group& G) { Space s; s.g = nullptr; s.dim = G.DoF; s.rot = G.rot_tangent_mask(); return s; }
  static Space vec(int d) { Space s; s.g = nullptr; s.dim = d; s.rot.assign(d, 0); return s; }
};
typedef std::function<Mat(const Mat&)> Fn;
// points of a group are its N x N matrices, points of a vector space are dim x 1 matrices.
// step: h for rotation-like coordinates, h*L for linear ones.
Mat fd_jacobian(const Space& dom, const Space& cod, const Fn& f, const Mat& x, Real h, Real L);
// max |A-B| after unit-consistent scaling (rows: linear /L, cols: linear *L), relative to max(1, |B| scaled)
Real diff_jac(const Mat& A, const Mat& B, const std::vector<char>& row_rot, const std::vector<char>& col_rot, Real L);
// same for a product P = X*Y compared with its expected value E: entry (i,j) is additionally allowed an error relative to
// (|X|*|Y|)_ij, the sum of the magnitudes of its terms (what any backward-stable evaluation of the product achieves)
Real diff_prod(const Mat& X, const Mat& Y, const Mat& E, const std::vector<char>& row_rot, const std::vector<char>& col_rot, Real L);

}  // namespace ref
