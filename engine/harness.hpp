// Common include for E1 (lattice) harnesses.
#pragma once
#include "adapt.hpp"
#include "bars.hpp"
#include "lattice.hpp"
#include "report.hpp"
#include <manif/functions.h>

#ifndef VF_GROUP_TYPE
#error "compile with -DVF_GROUP_TYPE=<manif group type> -DVF_UNIT=\"<name>\""
#endif

namespace vf {

template <class S> lat::Cfg make_cfg(const Args& a) {
  lat::Cfg c;
  c.thorough = a.thorough();
  c.is_float = std::is_same<S, float>::value;
  c.eps = (ref::Real)manif::Constants<S>::eps;
  return c;
}

template <class S> struct Sc { static const char* name() { return ScalarName<S>::s(); } };

inline std::string kv(const std::string& k, const std::string& v) { return "\"" + k + "\":" + v; }
inline std::string q(const std::string& s) { return "\"" + jesc(s) + "\""; }

}  // namespace vf

#define VF_MAIN(PROP, RUNFN)                                   \
  int main(int argc, char** argv) {                            \
    vf::Args a;                                                \
    a.parse(argc, argv);                                       \
    vf::Report R(PROP, VF_UNIT, a);                            \
    RUNFN<VF_GROUP_TYPE>(R);                                   \
    R.write();                                                 \
    return 0;                                                  \
  }
