"""Build / run / aggregate driver shared by all properties."""
import concurrent.futures as cf
import hashlib, json, os, re, shutil, subprocess, sys, time, glob

ROOT = os.path.dirname(os.path.dirname(os.path.abspath(__file__)))
REPO = os.environ.get('VERIF_REPO', '/repo')
BUILD = os.path.join(ROOT, 'build')
# when checks are pointed at another copy of the repository (seed matrix runs) evidence and replay files go to a scratch place
ALT = os.environ.get('VERIF_REPO', '/repo') != '/repo'
OUTROOT = os.path.join(BUILD, 'alt') if ALT else ROOT
# binaries built against another copy of the repository live apart: a seeded-change run must never evict (or be evicted by) the
# binaries of a check that is running against /repo at the same time
BINDIR = os.path.join(BUILD, 'alt', 'bin') if ALT else os.path.join(BUILD, 'bin')
INC = ['-I' + os.path.join(REPO, 'include'), '-I/usr/include/eigen3', '-I' + os.path.join(REPO, 'external/tl'),
       '-I' + os.path.join(ROOT, 'engine')]
CXX = os.environ.get('VERIF_CXX', 'g++')
BASEFLAGS = ['-std=c++14', '-O1', '-Wno-deprecated-declarations', '-Wno-attributes']

sys.path.insert(0, os.path.join(ROOT, 'checks'))

_tree_hash = None


def tree_hash():
    """hash of everything a harness can see of /repo: include/ and external/tl"""
    global _tree_hash
    if _tree_hash is None:
        h = hashlib.sha256()
        for top in ('include', 'external/tl'):
            base = os.path.join(REPO, top)
            for d, dirs, files in sorted(os.walk(base)):
                dirs.sort()
                for f in sorted(files):
                    p = os.path.join(d, f)
                    h.update(os.path.relpath(p, REPO).encode())
                    with open(p, 'rb') as fh:
                        h.update(hashlib.sha256(fh.read()).digest())
        _tree_hash = h.hexdigest()[:16]
    return _tree_hash


def files_hash(paths):
    h = hashlib.sha256()
    for p in sorted(paths):
        with open(p, 'rb') as fh:
            h.update(p.encode())
            h.update(fh.read())
    return h.hexdigest()[:16]


def engine_headers():
    return sorted(glob.glob(os.path.join(ROOT, 'engine', '*.hpp')) + glob.glob(os.path.join(ROOT, 'engine', '*.h')))


def sanitize(s):
    return re.sub(r'[^A-Za-z0-9_.=+-]', '_', s)


class Unit:
    """one harness binary: source + defines + build configuration"""

    def __init__(self, name, src, defs=(), build='ndebug', flags=(), link=('ref',), shards=1, args=(), cxx=None,
                 ldflags=(), extra_srcs=(), timeout=None, run_env=None, bisect=None, label=None, two_step=False, deps=()):
        self.name, self.src, self.defs, self.build = name, src, list(defs), build
        self.flags, self.link, self.shards, self.args = list(flags), list(link), shards, list(args)
        self.cxx = cxx or CXX
        self.ldflags = list(ldflags)
        self.extra_srcs = list(extra_srcs)
        self.timeout = timeout
        self.run_env = run_env
        # two_step: compile the harness with self.cxx and self.flags (e.g. clang++ -fsanitize=thread -c) but link with plain g++,
        # i.e. WITHOUT the sanitizer runtime (engine/sched/sched.cpp supplies the hooks)
        self.two_step = two_step
        self.deps = list(deps)  # extra files whose content is part of the cache key (headers next to the harness)
        # bisect: list of (label, defs) — if this unit does not compile, each variant is compiled on its own so
        # that the entries that cannot be instantiated are named individually (and the others still run)
        self.bisect = bisect
        self.label = label  # set on bisected variants: names the single entry the variant contains
        self.variant_defs = []

    def all_flags(self):
        f = list(BASEFLAGS)
        if self.build == 'ndebug':
            f.append('-DNDEBUG')
        f += self.flags
        f += ['-D' + d for d in self.defs + self.variant_defs]
        return f

    def key(self):
        # memoised: the key names the binary that was built; editing a header while a run is in progress must not rename it
        if getattr(self, '_key', None):
            return self._key
        self._key = self._compute_key()
        return self._key

    def _compute_key(self):
        srcs = [os.path.join(ROOT, self.src)] + [os.path.join(ROOT, s) for s in self.extra_srcs] + engine_headers()
        srcs += [os.path.join(ROOT, SHARED[n][0]) for n in self.link if n in SHARED]
        srcs += [os.path.join(ROOT, d) for d in self.deps]
        h = hashlib.sha256()
        h.update(tree_hash().encode())
        h.update(files_hash(srcs).encode())
        h.update(' '.join([self.cxx] + self.all_flags() + self.ldflags + self.link).encode())
        return h.hexdigest()[:16]

    def stem(self):
        return sanitize(os.path.basename(self.src).split('.')[0] + '_' + self.name + '_' + self.build + ('_' + self.label if self.label else ''))

    def variant(self, label, defs):
        import copy
        v = copy.copy(self)
        v.defs = [d for d in self.defs if not d.startswith('VF_FN_ALL')]
        v.variant_defs = list(defs)
        v.label = label
        v._key = None
        v.bisect = None
        v.shards = 1
        return v

    def binary(self):
        return os.path.join(BINDIR, self.stem() + '.' + self.key())


def build_obj(name, src, flags):
    """shared objects (ref.o ...) — independent of /repo"""
    srcp = os.path.join(ROOT, src)
    key = files_hash([srcp] + engine_headers())[:12] + hashlib.sha256(' '.join(flags).encode()).hexdigest()[:6]
    out = os.path.join(BUILD, 'obj', '%s.%s.o' % (name, key))
    if not os.path.exists(out):
        os.makedirs(os.path.dirname(out), exist_ok=True)
        tmp = out + '.tmp%d' % os.getpid()
        cmd = [CXX, '-std=c++14'] + flags + ['-c', srcp, '-o', tmp, '-I/usr/include/eigen3', '-I' + os.path.join(ROOT, 'engine')]
        r = subprocess.run(cmd, capture_output=True, text=True)
        if r.returncode != 0:
            sys.stderr.write(r.stderr)
            raise RuntimeError('cannot build ' + src)
        os.replace(tmp, out)
        for old in glob.glob(os.path.join(BUILD, 'obj', name + '.*.o')):
            if old != out:
                os.remove(old)
    return out


SHARED = {'sched': ('engine/sched/sched.cpp', ['-O2', '-g']), 'ref': ('engine/ref.cpp', ['-O2']), 'ref_asan': ('engine/ref.cpp', ['-O1', '-fsanitize=address', '-fno-omit-frame-pointer'])}


def shared_obj(name):
    src, flags = SHARED[name]
    return build_obj(name, src, flags)


def build_unit(u):
    """returns (unit, ok, log).  A compile failure is a *result* (the property may be about compiling)."""
    out = u.binary()
    if os.path.exists(out):
        return (u, True, '')
    os.makedirs(os.path.dirname(out), exist_ok=True)
    tmp = out + '.tmp%d' % os.getpid()
    objs = [shared_obj(n) for n in u.link]
    srcs = [os.path.join(ROOT, u.src)] + [os.path.join(ROOT, s) for s in u.extra_srcs]
    if u.two_step:
        obj = tmp + '.o'
        r = subprocess.run([u.cxx] + u.all_flags() + INC + ['-c', srcs[0], '-o', obj], capture_output=True, text=True)
        if r.returncode != 0:
            return (u, False, r.stderr[-6000:])
        cmd = [CXX, obj] + objs + ['-o', tmp] + u.ldflags + ['-lpthread', '-ldl', '-rdynamic']
        r = subprocess.run(cmd, capture_output=True, text=True)
        if os.path.exists(obj):
            os.remove(obj)
    else:
        cmd = [u.cxx] + u.all_flags() + INC + srcs + objs + ['-o', tmp] + u.ldflags + ['-lpthread']
        r = subprocess.run(cmd, capture_output=True, text=True)
    if r.returncode != 0:
        return (u, False, r.stderr[-6000:])
    os.replace(tmp, out)
    for old in glob.glob(os.path.join(BINDIR, u.stem() + '.*')):
        if old != out and '.tmp' not in old:
            try:
                os.remove(old)
            except OSError:
                pass
    return (u, True, '')


def build_units(units, jobs):
    for n in set(sum([u.link for u in units], [])):
        shared_obj(n)
    res = []
    with cf.ThreadPoolExecutor(max_workers=jobs) as ex:
        for r in ex.map(build_unit, units):
            res.append(r)
        # bisection of units that do not compile
        variants = []
        keep = []
        for (u, ok, log) in res:
            if not ok and u.bisect:
                variants += [u.variant(lbl, defs) for (lbl, defs) in u.bisect]
            else:
                keep.append((u, ok, log))
        res = keep
        for r in ex.map(build_unit, variants):
            res.append(r)
    return res


RUN_T0 = [None]  # wall-clock start of the run phase of the current check


def run_unit_shard(u, shard, tier, seed, outdir, extra_args, deadline):
    out = os.path.join(outdir, '%s.%d.json' % (u.stem(), shard))
    if os.path.exists(out):
        os.remove(out)
    cmd = [u.binary(), '--tier', tier, '--seed', str(seed), '--out', out, '--shard', '%d/%d' % (shard, u.shards)] + u.args + list(extra_args)
    if deadline:
        # the deadline is GLOBAL for the check: a shard that starts late (more shards than cores) gets what is left of it, at
        # least 5 s (it then reports its cells as skipped, exhaustive=false — a cap reported as a cap)
        if RUN_T0[0] is not None:
            deadline = max(5.0, deadline - (time.time() - RUN_T0[0]))
        cmd += ['--deadline', '%.0f' % deadline]
    t0 = time.time()
    env = dict(os.environ)
    if u.run_env:
        env.update(u.run_env)
    try:
        r = subprocess.run(cmd, capture_output=True, text=True, timeout=u.timeout or (deadline + 600 if deadline else 7200), env=env)
        rc, err = r.returncode, (r.stderr or '')[-4000:] + (r.stdout or '')[-2000:]
    except subprocess.TimeoutExpired:
        rc, err = -999, 'timeout'
    dt = time.time() - t0
    data = None
    if rc == 0 and os.path.exists(out):
        try:
            with open(out) as fh:
                data = json.load(fh)
        except Exception as e:  # noqa
            err += '\nunparsable result: %r' % e
    return dict(unit=u, shard=shard, rc=rc, err=err, data=data, wall=dt)


# ---------------------------------------------------------------------------------------------
# known findings
# ---------------------------------------------------------------------------------------------
class Known:
    def __init__(self, path=None):
        self.entries = []
        path = path or os.path.join(ROOT, 'known_findings.txt')
        if not os.path.exists(path):
            return
        for line in open(path):
            line = line.strip()
            if not line or line.startswith('#'):
                continue
            if line.startswith('known:'):
                m = re.match(r'known:\s+property=(\S+)\s+cell=(\S+)\s+what=(.*)$', line)
                if not m:
                    raise RuntimeError('bad known_findings line: ' + line)
                self.entries.append(dict(prop=m.group(1), rx=re.compile(m.group(2)), what=m.group(3), hits=0, src=m.group(2)))
            elif line.startswith('fixed:'):
                continue  # a fixed entry suppresses nothing
            else:
                raise RuntimeError('bad known_findings line: ' + line)

    def match(self, prop, key):
        for e in self.entries:
            if e['prop'] == prop and e['rx'].fullmatch(key):
                e['hits'] += 1
                return e
        return None


# ---------------------------------------------------------------------------------------------
def load_spec(prop):
    import importlib
    specs = importlib.import_module('specs')
    return specs.get(prop)


def all_props():
    import importlib
    specs = importlib.import_module('specs')
    return specs.all_props()


def build_all(tier, jobs):
    t0 = time.time()
    units = []
    for p in all_props():
        s = load_spec(p)
        for t in ('quick', 'thorough') if tier == 'thorough' else ('quick',):
            units += [u for u in s.units(t) if u.src]
    seen = {}
    for u in units:
        seen[u.binary()] = u
    res = build_units(list(seen.values()), jobs)
    for p in all_props():
        sp = load_spec(p)
        if hasattr(sp, 'prebuild'):
            sp.prebuild(tier, jobs)
    bad = [(u.name, log) for (u, ok, log) in res if not ok]
    print('build-all: %d binaries, %d compile failures (reported by the owning check), %.0fs' % (len(res), len(bad), time.time() - t0))
    return 0


def write_json(path, obj):
    os.makedirs(os.path.dirname(path), exist_ok=True)
    tmp = path + '.tmp'
    with open(tmp, 'w') as fh:
        json.dump(obj, fh, indent=1, default=str)
    os.replace(tmp, path)


def run_property(prop, tier, seed, jobs, replay=None, units_filter=None, build_only=False, deadline=None):
    t0 = time.time()
    spec = load_spec(prop)
    if spec is None:
        print('unknown property', prop)
        return 2
    if deadline is None and tier == 'thorough':
        deadline = spec.thorough_deadline
    units = spec.units(tier)
    replay_obj = None
    extra = []
    if replay:
        replay_obj = json.load(open(replay))
        units = [u for u in units if u.name == replay_obj['unit'] and u.build == replay_obj.get('build', u.build)]
        for u in units:
            u.shards = 1
        extra = ['--replay', replay_obj['key']]
        det = (replay_obj.get('cell') or {}).get('detail') or {}
        if isinstance(det, dict) and det.get('schedule') is not None:
            extra += ['--only', 'schedule=' + str(det['schedule'])]
    if units_filter:
        keep = units_filter.split(',')
        units = [u for u in units if any(k in u.name for k in keep)]
    # ---- build
    cpp_units = [u for u in units if u.src]
    bres = build_units(cpp_units, jobs)
    build_fail = [(u, log) for (u, ok, log) in bres if not ok]
    t_build = time.time() - t0
    if build_only:
        for u, log in build_fail:
            print('BUILD-FAIL', u.name, log[-800:])
        return 0
    # ---- run
    outdir = os.path.join(BUILD, 'alt_run' if ALT else 'run', prop + '_' + tier)
    os.makedirs(outdir, exist_ok=True)
    tasks = []
    okunits = [u for (u, ok, log) in bres if ok]
    results = []
    RUN_T0[0] = time.time()
    with cf.ThreadPoolExecutor(max_workers=jobs) as ex:
        futs = []
        for u in okunits:
            for s in range(u.shards):
                futs.append(ex.submit(run_unit_shard, u, s, tier, seed, outdir, extra, deadline))
        for f in futs:
            results.append(f.result())
    # python-side parts of the spec (program matrices, schedulers driven from python ...)
    py_results = spec.run_python(tier, seed, jobs, deadline, replay_obj) if hasattr(spec, 'run_python') else []
    return aggregate(spec, prop, tier, seed, results, py_results, build_fail, t0, t_build, replay_obj)


def aggregate(spec, prop, tier, seed, results, py_results, build_fail, t0, t_build, replay_obj):
    known = Known()
    cov = dict(states=0, transitions=0, evaluations=0, distinct_nontrivial=0, product_size=0, traces_validated_against_impl=0,
               skipped=0)
    counters, max_ratio, checks_done, units_info, samples, notes = {}, {}, {}, {}, [], []
    failures = []  # (key, check, unit, build, obj)
    exhaustive = True
    infra_errors = []
    datas = []
    for r in results:
        u = r['unit']
        if r['data'] is None:
            infra_errors.append((u, r['shard'], r['rc'], r['err'][-3000:]))
            continue
        d = r['data']
        d['_unit'] = u.name
        d['_build'] = u.build
        d['_wall'] = r['wall']
        datas.append(d)
    for d in py_results:
        datas.append(d)
    for d in datas:
        for k in ('states', 'transitions', 'evaluations', 'product_size', 'skipped'):
            cov[k] += d.get(k, 0)
        cov['distinct_nontrivial'] += d.get('nontrivial', 0)
        exhaustive = exhaustive and d.get('exhaustive', True)
        for k, v in d.get('counters', {}).items():
            counters[k] = counters.get(k, 0) + v
        for k, v in d.get('checks_done', {}).items():
            checks_done[k] = checks_done.get(k, 0) + v
        for k, v in d.get('max_ratio', {}).items():
            val = v[0]
            if isinstance(val, str):
                val = float(val.replace('"', ''))
            cur = max_ratio.get(k)
            if cur is None or val > cur[0]:
                max_ratio[k] = [val, d['_unit'] + '/' + d.get('_build', '') + ':' + v[1]]
        ui = units_info.setdefault(d['_unit'] + '/' + d.get('_build', ''), dict(evaluations=0, states=0, failures=0, wall_s=0.0))
        ui['evaluations'] += d.get('evaluations', 0)
        ui['states'] += d.get('states', 0)
        ui['wall_s'] = round(ui['wall_s'] + d.get('_wall', 0), 2)
        if len(samples) < 8:
            for s in d.get('samples', [])[:2]:
                samples.append(dict(unit=d['_unit'], build=d.get('_build', ''), case=s))
        for n in d.get('notes', []):
            if len(notes) < 40:
                notes.append(d['_unit'] + ': ' + n)
        for f in d.get('failures', []):
            ui['failures'] += 1
            failures.append((f['key'], f.get('check', ''), d['_unit'], d.get('_build', ''), f))
    # compile failures are findings of the property when the spec says so, infrastructure errors otherwise
    for u, log in build_fail:
        first = [l for l in log.splitlines() if 'error' in l][:3]
        key = '%s/does_not_compile/%s/%s' % (prop, u.name, (u.label or u.build))
        failures.append((key, 'does_not_compile', u.name, u.build, dict(key=key, check='does_not_compile', detail=dict(first_errors=first, log_tail=log[-1500:]))))
    # a harness that crashes, aborts or hangs is a violation (it does neither on the unchanged tree)
    for u, shard, rc, err in infra_errors:
        key = '%s/harness_abnormal_exit/%s/%s/shard%d' % (prop, u.name, u.build, shard)
        failures.append((key, 'harness_abnormal_exit', u.name, u.build, dict(key=key, check='harness_abnormal_exit', detail=dict(rc=rc, stderr_tail=err))))
    cov['traces_validated_against_impl'] = cov['evaluations']
    # ---- classify failures
    viol, known_hit = [], {}
    for key, check, unit, build, obj in failures:
        e = known.match(prop, key)
        if e is not None:
            known_hit.setdefault(e['src'], [e, 0])
            known_hit[e['src']][1] += 1
        else:
            viol.append((key, check, unit, build, obj))
    # ---- output
    for src, (e, n) in sorted(known_hit.items()):
        print('KNOWN-FINDING: property=%s %s [cells=%d pattern=%s]' % (prop, e['what'], n, src))
    rdir = os.path.join(OUTROOT, 'replay', prop)
    if os.path.isdir(rdir) and not replay_obj:
        shutil.rmtree(rdir)
    printed = 0
    seen_keys = set()
    for key, check, unit, build, obj in viol:
        if key in seen_keys:
            continue
        seen_keys.add(key)
        if printed < 50:
            path = os.path.join(rdir, sanitize(key)[:180] + '.json')
            rep = dict(property=prop, key=key, check=check, unit=unit, build=build, tier=tier, cell=obj,
                       how_to_replay='./vcheck %s --replay %s' % (prop, os.path.relpath(path, ROOT)))
            write_json(path, rep)
            print('VIOLATION property=%s replay=%s' % (prop, path))
            printed += 1
    wall = time.time() - t0
    cov.update(dict(
        exhaustive=bool(exhaustive and not infra_errors),
        rule=spec.rule, samples=samples or [dict(note='no samples produced')],
        branch_and_stratum_counters=counters, checks_done=checks_done,
        worst_residual_over_bar=max_ratio, per_unit=units_info, notes=notes,
        known_findings_hit={src: n for src, (e, n) in known_hit.items()},
        violation_cells=len(seen_keys), violation_keys_first=[k for k in list(seen_keys)[:50]],
        build_wall_s=round(t_build, 1), compile_failures=[u.name + '/' + u.build for u, _ in build_fail],
        explanation=spec.explanation,
    ))
    ev = dict(property_id=prop, tier=tier, seed=seed, level=spec.level, coverage=cov, assumptions=spec.assumptions,
              wall_s=round(wall, 2), violations=len(seen_keys))
    if not replay_obj:
        write_json(os.path.join(OUTROOT, 'evidence', prop + '.json'), ev)
    print('%s %s: units=%d states=%d transitions=%d evaluations=%d nontrivial=%d violations=%d known_cells=%d exhaustive=%s wall=%.1fs (build %.1fs)' % (
        prop, tier, len(units_info), cov['states'], cov['transitions'], cov['evaluations'], cov['distinct_nontrivial'], len(seen_keys),
        sum(n for _, n in known_hit.values()), cov['exhaustive'], wall, t_build))
    return 1 if seen_keys else 0
