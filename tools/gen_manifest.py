#!/usr/bin/env python3
"""Regenerates /verif/MANIFEST.json from checks/specs.py (single source of truth)."""
import json, os, sys
ROOT = os.path.dirname(os.path.dirname(os.path.abspath(__file__)))
sys.path.insert(0, os.path.join(ROOT, 'engine'))
sys.path.insert(0, os.path.join(ROOT, 'checks'))
import specs

ALL = ['C%02d' % i for i in range(1, 20)]
have = specs.all_props()
checks = []
for p in have:
    s = specs.get(p)
    checks.append(dict(
        property_id=p,
        quick_cmd='./vcheck %s --tier quick' % p,
        thorough_cmd='./vcheck %s --tier thorough' % p,
        evidence_file='evidence/%s.json' % p,
        replay_cmd_template='./vcheck %s --replay {path}' % p,
        engine=s.engine,
        level_claimed=dict(category=s.level, text=s.level_text, design_ref=s.design_ref),
        level_note=s.level_note,
        technique=s.technique,
    ))
na = []
for p in ALL:
    if p not in have:
        na.append(dict(property_id=p, reason=specs.NOT_CLAIMED.get(p, 'check not built yet in this session; see DESIGN.md section 4 for the planned exploration')))
m = dict(
    version=1,
    setup_cmd='./vcheck --build-all --tier quick',
    hooks=dict(
        guard='MANIF_VERIF',
        enable='no source hooks: harnesses include /repo/include directly; hooks are obtained by link-time interposition (__cxa_guard_*, __tsan_*), compiler instrumentation and Constants<>/is_ad<> specialisation',
        baseline_off_cmd='ctest --test-dir /repo/_build -j8 --timeout 900',
        source_commits=[],
        add_only=True,
    ),
    engines=[
        dict(name='E1-lattice', path='engine/lattice.hpp', serves_properties=[p for p in have if specs.get(p).engine == 'E1-lattice'],
             kind_free_text='exhaustive enumeration of a finite product of input atoms on the real code, oracle = extended-precision generic matrix-Lie-group calculator (engine/ref.cpp)'),
        dict(name='E3-bfs', path='engine/bfs.hpp', serves_properties=[p for p in have if specs.get(p).engine == 'E3-bfs'],
             kind_free_text='explicit-state breadth-first exploration of operation histories on the real code, states hashed on coefficient bit patterns'),
        dict(name='E4-sched', path='engine/sched', serves_properties=[p for p in have if specs.get(p).engine == 'E4-sched'],
             kind_free_text='stateless preemption-bounded exploration of thread interleavings at hooked static-initialisation guards, vector-clock race detector'),
        dict(name='E5-progmatrix', path='engine/progmatrix.py', serves_properties=[p for p in have if specs.get(p).engine == 'E5-progmatrix'],
             kind_free_text='exhaustive matrix of generated client programs, each compiled, linked, run and compared with the canonical member'),
    ],
    checks=checks,
    not_applicable=na,
    notes='All checks rebuild their harnesses whenever the content hash of /repo/include, /repo/external/tl or the harness sources changes (build/ cache is keyed by that hash).',
)
json.dump(m, open(os.path.join(ROOT, 'MANIFEST.json'), 'w'), indent=1)
print('MANIFEST.json: %d checks, %d not claimed' % (len(checks), len(na)))
