#!/usr/bin/env python3
"""save_seed.py <worktree> <seed-id> <property> '<needs>' '<what I ran / result>' '<caught by>'"""
import sys, os, subprocess, json, shutil
w, sid, prop, needs, ran, caught = sys.argv[1:7]
d = os.path.join(os.path.dirname(os.path.dirname(os.path.abspath(__file__))), 'seeded', sid)
os.makedirs(d, exist_ok=True)
patch = subprocess.run(['git', '-C', w, 'diff', '--', 'include'], capture_output=True, text=True).stdout
open(os.path.join(d, 'patch.diff'), 'w').write(patch)
shutil.copy(os.path.join(w, 'demo.cpp'), os.path.join(d, 'demo.cpp'))
desc = open(os.path.join(w, 'meta.txt')).read() if os.path.exists(os.path.join(w, 'meta.txt')) else ''
base = subprocess.run(['git', '-C', w, 'rev-parse', 'HEAD'], capture_output=True, text=True).stdout.strip()
json.dump(dict(id=sid, breaks_property=prop, based_on_repo_commit=base, description=desc, needs_to_manifest=needs,
               confirmed=ran, caught_by=caught), open(os.path.join(d, 'meta.json'), 'w'), indent=1)
print('saved', d)
