#!/bin/bash
# run every check of a tier on /repo, one after another; summary on stdout
tier=${1:-quick}; shift
props=${@:-C01 C02 C03 C04 C05 C06 C07 C08 C09 C10 C11 C12 C13 C14 C15 C16 C17 C18 C19}
mkdir -p build/logs
for p in $props; do
  s=$(date +%s)
  ./vcheck $p --tier $tier > build/logs/$p.$tier.log 2>&1; rc=$?
  e=$(( $(date +%s) - s ))
  if [ "$tier" = thorough ] && [ $rc -eq 0 ]; then mkdir -p evidence_thorough; cp evidence/$p.json evidence_thorough/$p.json; fi
  echo "$p $tier exit=$rc ${e}s viol=$(grep -c '^VIOLATION' build/logs/$p.$tier.log) known=$(grep -c '^KNOWN-FINDING' build/logs/$p.$tier.log) :: $(tail -1 build/logs/$p.$tier.log | cut -c1-200)"
done
