#!/usr/bin/env python3
"""Applies every seeded change (seeded/<id>/patch.diff) to a scratch copy of /repo and runs the quick checks against it.
Writes seeded/MATRIX.md: which checks raise a VIOLATION for which seed.  Never touches /repo itself.
usage: tools/seed_matrix.py [--checks C01,C02,...] [--seeds id1,id2] [--all-checks]"""
import json, os, subprocess, sys, glob, re, time
ROOT = os.path.dirname(os.path.dirname(os.path.abspath(__file__)))
SCR = '/tmp/wt/seedrepo'
args = sys.argv[1:]
def opt(name):
    return args[args.index(name) + 1].split(',') if name in args else None
seeds = sorted(os.path.basename(d) for d in glob.glob(os.path.join(ROOT, 'seeded', '*')) if os.path.isdir(d))
if opt('--seeds'):
    seeds = [s for s in seeds if s in opt('--seeds')]
ALLC = ['C%02d' % i for i in range(1, 20)]
subprocess.run(['git', '-C', '/repo', 'worktree', 'remove', '--force', SCR], capture_output=True)
subprocess.run(['git', '-C', '/repo', 'worktree', 'add', '--detach', SCR, 'HEAD'], check=True, capture_output=True)
env = dict(os.environ, VERIF_REPO=SCR)
rows = []
try:
    for sid in seeds:
        meta = json.load(open(os.path.join(ROOT, 'seeded', sid, 'meta.json')))
        prop = meta['breaks_property']
        patch = os.path.join(ROOT, 'seeded', sid, 'patch.diff')
        # back to the pristine HEAD (index included: a --3way apply stages its result, which `checkout -- .` would not undo)
        subprocess.run(['git', '-C', SCR, 'reset', '--hard', '-q', 'HEAD'], check=True)
        assert subprocess.run(['git', '-C', SCR, 'status', '--porcelain', '--untracked-files=no'], capture_output=True, text=True).stdout.strip() == ''
        r = subprocess.run(['git', '-C', SCR, 'apply', patch], capture_output=True, text=True)
        if r.returncode != 0:
            r = subprocess.run(['git', '-C', SCR, 'apply', '--recount', '-C1', patch], capture_output=True, text=True)
        if r.returncode != 0:
            subprocess.run(['git', '-C', SCR, 'reset', '--hard', '-q', 'HEAD'], check=True)
            r = subprocess.run(['git', '-C', SCR, 'apply', '--3way', patch], capture_output=True, text=True)
        if r.returncode != 0:
            rows.append((sid, prop, {'(patch no longer applies to HEAD)': r.stderr.strip()[:120]}))
            continue
        checks = opt('--checks') or (ALLC if '--all-checks' in args else sorted(set([prop] + meta.get('also_run', []))))
        res = {}
        for c in checks:
            t0 = time.time()
            p = subprocess.run([os.path.join(ROOT, 'vcheck'), c, '--tier', 'quick'], capture_output=True, text=True, env=env, cwd=ROOT)
            m = re.findall(r'violations=(\d+)', p.stdout)
            res[c] = 'VIOLATION x%s (exit %d, %.0fs)' % (m[-1] if m else '?', p.returncode, time.time() - t0) if p.returncode != 0 else 'silent (exit 0, %.0fs)' % (time.time() - t0)
            print(sid, c, res[c], flush=True)
        if meta.get('obsolete_at_head'):
            res = {k: v + ' — expected: ' + meta['obsolete_at_head'] for k, v in res.items()}
        rows.append((sid, prop, res))
finally:
    subprocess.run(['git', '-C', '/repo', 'worktree', 'remove', '--force', SCR], capture_output=True)
mpath = os.path.join(ROOT, 'seeded', 'MATRIX.md')
if opt('--seeds') and os.path.exists(mpath):
    # partial run: keep the rows of the seeds that were not re-measured
    done = set(r[0] for r in rows)
    for line in open(mpath):
        m = re.match(r'\| (\S+) \| (C\d+) \| (.*) \|$', line.strip())
        if m and m.group(1) not in done and m.group(1) != 'seed':
            rows.append((m.group(1), m.group(2), {'': m.group(3)}))
    rows.sort(key=lambda r: r[0])
with open(mpath, 'w') as fh:
    fh.write('# Seeded changes x checks (quick tier), against /repo HEAD %s\n\n' % subprocess.run(['git', '-C', '/repo', 'rev-parse', '--short', 'HEAD'], capture_output=True, text=True).stdout.strip())
    fh.write('Produced by tools/seed_matrix.py: each patch is applied to a scratch worktree of /repo (never to /repo), the listed quick checks are run with VERIF_REPO pointing at it.\n\n')
    fh.write('| seed | breaks | result |\n|---|---|---|\n')
    for sid, prop, res in rows:
        fh.write('| %s | %s | %s |\n' % (sid, prop, '; '.join(('%s: %s' % kv) if kv[0] else kv[1] for kv in sorted(res.items()))))
print('written seeded/MATRIX.md')
