#!/bin/bash
# usage: confirm_seed.sh <worktree> ; verifies: patch applied -> suite builds/passes, demo fails; patch reverted -> demo passes
set -u
W=$1
cd $W || exit 2
git diff -- include > /tmp/_seed_patch.diff
[ -s /tmp/_seed_patch.diff ] || { echo "no applied change in $W"; exit 2; }
CC=$(grep -m1 -o "g++ .*" demo.cpp | sed 's/\*\/.*//')
[ -n "$CC" ] || CC="g++ -std=c++14 -O1 -I include -I /usr/include/eigen3 -I external/tl demo.cpp -o demo"
echo "compile: $CC"
( cmake --build _build -j8 2>&1 | tail -1; ctest --test-dir _build -j8 2>&1 | grep -E "tests passed|tests failed" ) 
eval $CC 2>&1 | grep -E "error" | head -3; ./demo > /tmp/_demo_with.txt 2>&1; echo "demo WITH change: exit $?"; tail -2 /tmp/_demo_with.txt
git apply -R /tmp/_seed_patch.diff
eval $CC 2>&1 | grep -E "error" | head -3; ./demo > /tmp/_demo_without.txt 2>&1; echo "demo WITHOUT change: exit $?"; tail -1 /tmp/_demo_without.txt
git apply /tmp/_seed_patch.diff
