#!/usr/bin/env python3
import json,sys,glob,collections,re
prop=sys.argv[1]; tier=sys.argv[2] if len(sys.argv)>2 else 'quick'
b=collections.Counter(); ex={}
worst={}
for f in glob.glob('build/run/%s_%s/*.json'%(prop,tier)):
    d=json.load(open(f))
    for x in d['failures']:
        k=x['key'].split('/')
        kk='/'.join(k[:5])
        b[kk]+=1
        r=x['residual']; r=float(r) if not isinstance(r,str) else float('inf')
        if kk not in worst or r>worst[kk][0]: worst[kk]=(r,x['key'],x.get('bar'))
for k,v in sorted(b.items()): print(v,k,'worst=%.3g bar=%s'%(worst[k][0],worst[k][2]),worst[k][1].split('/')[-1])
ev=json.load(open('evidence/%s.json'%prop))
print('max_ratio:')
for k,v in ev['coverage']['worst_residual_over_bar'].items(): print('  ',k,v)
