// C02 / C03 thorough: EVERY float32 rotation magnitude in [2^-24, 8) (226 492 416 values) for the float instantiation,
// crossed with 3 rotation directions x 3 linear configurations.  Oracle: matrix exponential of sum t_i G_i (documented
// generators) evaluated in double by scaling-and-squaring Taylor (29 more bits than the subject).
//   VF_SWEEP_LOG undefined: C02  —  M(t.exp()) == expm(hat t)
//   VF_SWEEP_LOG defined  : C03  —  expm(hat(X.log())) == M(X) for X = t.exp(), and log(exp t) == t
#include "adapt.hpp"
#include "bars.hpp"
#include "report.hpp"
#include <cstdint>
#include <cstring>

#ifndef VF_PROP
#define VF_PROP "C02"
#endif

template <int N> static Eigen::Matrix<double, N, N> expm_d(const Eigen::Matrix<double, N, N>& A) {
  typedef Eigen::Matrix<double, N, N> M;
  double nrm = A.cwiseAbs().rowwise().sum().maxCoeff();
  int s = 0;
  if (nrm > 0.25) s = (int)std::ceil(std::log2(nrm / 0.25));
  M B = A * std::ldexp(1.0, -s);
  M X = M::Identity(), T = M::Identity();
  for (int k = 1; k <= 14; ++k) { T = (T * B) / (double)k; X += T; }
  for (int i = 0; i < s; ++i) X = X * X;
  return X;
}

template <class G> struct Sweep {
  typedef typename G::Tangent T;
  static constexpr int N = T::LieAlg::RowsAtCompileTime;
  static constexpr int D = T::DoF;
  typedef Eigen::Matrix<double, N, N> M;
  vf::Report& R;
  const ref::Group& g;
  std::vector<M> gens;
  bool rotmask[N][N];
  Sweep(vf::Report& r) : R(r), g(vf::RG<G>()) {
    for (int a = 0; a < N; ++a) for (int b = 0; b < N; ++b) rotmask[a][b] = g.is_rot_entry(a, b);
    for (int i = 0; i < D; ++i) { M G0; ref::Mat gi = g.gen(i); for (int a = 0; a < N; ++a) for (int b = 0; b < N; ++b) G0(a, b) = (double)gi(a, b); gens.push_back(G0); }
  }
  M hat(const T& t) const { M A = M::Zero(); for (int i = 0; i < D; ++i) A += (double)t.coeffs()(i) * gens[i]; return A; }
  // documented embedding of the coefficient vector, in double, fixed size (same tables as engine/ref.cpp::block_toM)
  static void q2r(double x, double y, double z, double w, M& m) {
    double n = std::sqrt(x * x + y * y + z * z + w * w); x /= n; y /= n; z /= n; w /= n;
    m(0, 0) = 1 - 2 * (y * y + z * z); m(0, 1) = 2 * (x * y - z * w);     m(0, 2) = 2 * (x * z + y * w);
    m(1, 0) = 2 * (x * y + z * w);     m(1, 1) = 1 - 2 * (x * x + z * z); m(1, 2) = 2 * (y * z - x * w);
    m(2, 0) = 2 * (x * z - y * w);     m(2, 1) = 2 * (y * z + x * w);     m(2, 2) = 1 - 2 * (x * x + y * y);
  }
  M Mof(const G& X) const {
    M m = M::Identity();
    auto c = [&](int i) { return (double)X.coeffs()(i); };
    switch (g.blocks[0].kind) {
      case ref::RN: for (int i = 0; i < g.blocks[0].n; ++i) m(i, N - 1) = c(i); break;
      case ref::SO2: { double n = std::hypot(c(0), c(1)); m(0, 0) = c(0) / n; m(0, 1) = -c(1) / n; m(1, 0) = c(1) / n; m(1, 1) = c(0) / n; } break;
      case ref::SE2: { double n = std::hypot(c(2), c(3)); m(0, 0) = c(2) / n; m(0, 1) = -c(3) / n; m(1, 0) = c(3) / n; m(1, 1) = c(2) / n; m(0, 2) = c(0); m(1, 2) = c(1); } break;
      case ref::SO3: q2r(c(0), c(1), c(2), c(3), m); break;
      case ref::SE3: q2r(c(3), c(4), c(5), c(6), m); for (int i = 0; i < 3; ++i) m(i, 3) = c(i); break;
      case ref::SE23: q2r(c(3), c(4), c(5), c(6), m); for (int i = 0; i < 3; ++i) { m(i, 3) = c(i); m(i, 4) = c(7 + i); } break;
      case ref::SGAL3: q2r(c(3), c(4), c(5), c(6), m); for (int i = 0; i < 3; ++i) { m(i, 3) = c(7 + i); m(i, 4) = c(i); } m(3, 4) = c(10); break;
    }
    return m;
  }
  // fast documented embedding in double (avoids the long-double path per evaluation)
  double diff(const M& A, const M& B, double lin) const {
    double m = 0;
    for (int a = 0; a < N; ++a) for (int b = 0; b < N; ++b) {
      double d = std::fabs(A(a, b) - B(a, b));
      if (!(d == d)) return INFINITY;
      if (!rotmask[a][b]) d /= lin;
      if (d > m) m = d;
    }
    return m;
  }

  void run() {
    const ref::Block& B = g.blocks[0];
    const float dirs[3][3] = {{1, 0, 0}, {0.57735026f, 0.57735026f, 0.57735026f}, {0.26726124f, -0.53452248f, 0.80178373f}};
    const float lins[3] = {0.0f, 1.0f, 1000.0f};
    uint32_t lo, hi; { float a = std::ldexp(1.0f, -24), b = 8.0f; std::memcpy(&lo, &a, 4); std::memcpy(&hi, &b, 4); }
    const uint64_t total = (uint64_t)(hi - lo);
    const uint64_t per = total / (uint64_t)R.args.shard_n + 1;
    const uint64_t b0 = (uint64_t)lo + per * (uint64_t)R.args.shard_i, b1 = std::min<uint64_t>((uint64_t)hi, b0 + per);
    // quick tier of this unit (not registered for quick): every 4096th value
    const uint32_t step = R.args.thorough() ? 1 : 4096;
    double worst = 0; uint32_t worst_bits = 0; int worst_cfg = 0;
    long n = 0, bad = 0;
    typedef vf::Bars<float> BF;
    const double bar =
#ifdef VF_SWEEP_LOG
        (double)BF::B3;
#else
        (double)BF::B2;
#endif
    for (uint64_t bits = b0; bits < b1; bits += step) {
      uint32_t bb = (uint32_t)bits; float th; std::memcpy(&th, &bb, 4);
      for (int d = 0; d < (B.rotdim == 3 ? 3 : 1); ++d)
        for (int l = 0; l < (B.DoF > (B.rotdim == 3 ? 3 : 1) ? 3 : 1); ++l) {
          T t = T::Zero();
          if (B.rotdim == 3) for (int k = 0; k < 3; ++k) t.coeffs()(B.rot_t0 + k) = th * dirs[d][k];
          else t.coeffs()(B.rot_t0) = th;
          for (int k = 0; k < D; ++k) {
            bool rot = B.rotdim == 3 ? (k >= B.rot_t0 && k < B.rot_t0 + 3) : (k == B.rot_t0);
            if (!rot) t.coeffs()(k) = lins[l] * (0.3f + 0.1f * (float)((k * 7) % 5)) * ((k % 2) ? -1.0f : 1.0f);
          }
          G X = t.exp();
          M E = expm_d<N>(hat(t));
          double lin = 1; for (int a = 0; a < N; ++a) for (int b = 0; b < N; ++b) if (!rotmask[a][b]) lin = std::max(lin, std::fabs(E(a, b)));
          double res;
#ifdef VF_SWEEP_LOG
          T L = X.log();
          M Mx = Mof(X);
          res = diff(expm_d<N>(hat(L)), Mx, lin);
          if (th < 3.14f) { double dt = 0; for (int k = 0; k < D; ++k) { bool rot = B.rotdim == 3 ? (k >= B.rot_t0 && k < B.rot_t0 + 3) : (k == B.rot_t0); { double q_ = std::fabs((double)L.coeffs()(k) - (double)t.coeffs()(k)) / (rot ? 1.0 : lin); if (!(q_ == q_)) q_ = INFINITY; if (q_ > dt) dt = q_; } } res = std::max(res, dt); }
#else
          res = diff(Mof(X), E, lin);
#endif
          ++n;
          if (res > worst) { worst = res; worst_bits = bb; worst_cfg = d * 3 + l; }
          if (!(res <= bar)) {
            ++bad;
            if (bad <= 20) {
              char key[128]; snprintf(key, sizeof key, "theta_bits=0x%08x,dir=%d,lin=%d", bb, d, l);
              R.judge("f32_sweep", res, bar, key);
              R.fail("f32_sweep", key, res, bar, "{" + std::string("\"theta\":") + vf::jnum(th) + ",\"t\":" + vf::decvec(t.coeffs()) + ",\"X\":" + vf::decvec(X.coeffs()) + "}");
            }
          }
        }
    }
    char key[128]; snprintf(key, sizeof key, "theta_bits=0x%08x,cfg=%d", worst_bits, worst_cfg);
    R.judge("f32_sweep", bad ? 2 * bar : worst, bar, key);
    R.evaluations = n; R.states = n; R.transitions = n; R.nontrivial = n; R.product_size = n;
    R.counters["float32_rotation_magnitudes_swept"] = (long)((b1 - b0 + step - 1) / step);
    R.counters["f32_sweep_cells_over_bar"] = bad;
    float wt; std::memcpy(&wt, &worst_bits, 4);
    R.sample("{\"worst_cell\":\"" + std::string(key) + "\",\"theta\":" + vf::jnum(wt) + ",\"residual_over_scale\":" + vf::jnum(worst) + "}");
  }
};

template <class G> void run_sweep(vf::Report& R) { Sweep<G> s(R); s.run(); }
int main(int argc, char** argv) {
  vf::Args a; a.parse(argc, argv);
  vf::Report R(VF_PROP, VF_UNIT, a);
  run_sweep<VF_GROUP_TYPE>(R);
  R.write();
  return 0;
}
