// C01 / C07 (exact part): the library instantiated over an exact rational scalar (GMP).  Group law, action, adjoint and
// Lie-algebra identities must hold with ZERO residual.  Unit rotation parts come from rational stereographic
// parametrisations (both hemispheres); transcendental paths (exp/log of non-zero arguments) are outside this domain.
#include "exactq.hpp"
#include <manif/manif.h>
#include "report.hpp"
#include <vector>

typedef vfq::Q Q;
#ifndef VF_PROP
#define VF_PROP "C01"
#endif

template <class M> static bool is_zero(const M& m) { for (int i = 0; i < m.rows(); ++i) for (int j = 0; j < m.cols(); ++j) if (!(m(i, j) == Q(0))) return false; return true; }
template <class A, class B> static bool eq(const A& a, const B& b) { if (a.rows() != b.rows() || a.cols() != b.cols()) return false; for (int i = 0; i < a.rows(); ++i) for (int j = 0; j < a.cols(); ++j) if (!(a(i, j) == b(i, j))) return false; return true; }

static std::vector<Q> rationals() { std::vector<Q> v; v.push_back(Q(0)); v.push_back(Q(1, 3)); v.push_back(Q(-7, 2)); v.push_back(Q(1000000)); v.push_back(Q(1, 1000000)); return v; }

// rational unit quaternions: q = (2a, 2b, 2c, 1-s)/(1+s), s = a^2+b^2+c^2 ; both hemispheres
static std::vector<Eigen::Matrix<Q, 4, 1> > unit_quats(int level) {
  std::vector<Eigen::Matrix<Q, 4, 1> > out;
  const Q g[7] = {Q(0), Q(1, 4), Q(-1, 4), Q(1), Q(-1), Q(3), Q(-3)};
  int n = level ? 7 : 4;
  for (int i = 0; i < n; ++i) for (int j = 0; j < n; ++j) for (int k = 0; k < n; ++k) {
    if (!level && (i + j + k) % 2) continue;
    Q a = g[i], b = g[j], c = g[k], s = a * a + b * b + c * c;
    Eigen::Matrix<Q, 4, 1> q; q << Q(2) * a / (Q(1) + s), Q(2) * b / (Q(1) + s), Q(2) * c / (Q(1) + s), (Q(1) - s) / (Q(1) + s);
    out.push_back(q); out.push_back(Eigen::Matrix<Q, 4, 1>(-q));
  }
  return out;
}
// rational unit complex numbers z = ((1-u^2), 2u)/(1+u^2)
static std::vector<Eigen::Matrix<Q, 2, 1> > unit_complex() {
  std::vector<Eigen::Matrix<Q, 2, 1> > out;
  const Q g[7] = {Q(0), Q(1, 4), Q(-1, 4), Q(1), Q(-1), Q(3), Q(-7, 2)};
  for (int i = 0; i < 7; ++i) { Q u = g[i]; Eigen::Matrix<Q, 2, 1> z; z << (Q(1) - u * u) / (Q(1) + u * u), Q(2) * u / (Q(1) + u * u); out.push_back(z); out.push_back(Eigen::Matrix<Q, 2, 1>(-z)); }
  return out;
}

// index of the homogeneous coordinate that is 1 in the documented point embedding (-1: the last one)
template <class G> struct HomSlot { static const int value = -1; };
template <> struct HomSlot<manif::SE_2_3<Q> > { static const int value = 3; };
template <> struct HomSlot<manif::SGal3<Q> > { static const int value = 4; };
template <class G> struct Build;
template <> struct Build<manif::SO3<Q> > { static std::vector<manif::SO3<Q> > all(int lv) { std::vector<manif::SO3<Q> > v; auto qs = unit_quats(lv); for (auto& q : qs) { manif::SO3<Q> x; x.coeffs() = q; v.push_back(x); } return v; } };
template <> struct Build<manif::SE3<Q> > { static std::vector<manif::SE3<Q> > all(int lv) { std::vector<manif::SE3<Q> > v; auto qs = unit_quats(0); auto r = rationals(); int k = 0; for (auto& q : qs) { manif::SE3<Q> x; x.coeffs() << r[k % 5], r[(k + 1) % 5], r[(k + 3) % 5], q; v.push_back(x); ++k; } (void)lv; return v; } };
template <> struct Build<manif::SE_2_3<Q> > { static std::vector<manif::SE_2_3<Q> > all(int) { std::vector<manif::SE_2_3<Q> > v; auto qs = unit_quats(0); auto r = rationals(); int k = 0; for (auto& q : qs) { manif::SE_2_3<Q> x; x.coeffs() << r[k % 5], r[(k + 1) % 5], r[(k + 3) % 5], q, r[(k + 2) % 5], r[(k + 4) % 5], r[k % 3]; v.push_back(x); ++k; } return v; } };
template <> struct Build<manif::SGal3<Q> > { static std::vector<manif::SGal3<Q> > all(int) { std::vector<manif::SGal3<Q> > v; auto qs = unit_quats(0); auto r = rationals(); int k = 0; for (auto& q : qs) { manif::SGal3<Q> x; x.coeffs() << r[k % 5], r[(k + 1) % 5], r[(k + 3) % 5], q, r[(k + 2) % 5], r[(k + 4) % 5], r[k % 3], r[(k + 1) % 4]; v.push_back(x); ++k; } return v; } };
template <> struct Build<manif::SO2<Q> > { static std::vector<manif::SO2<Q> > all(int) { std::vector<manif::SO2<Q> > v; auto zs = unit_complex(); for (auto& z : zs) { manif::SO2<Q> x; x.coeffs() = z; v.push_back(x); } return v; } };
template <> struct Build<manif::SE2<Q> > { static std::vector<manif::SE2<Q> > all(int) { std::vector<manif::SE2<Q> > v; auto zs = unit_complex(); auto r = rationals(); int k = 0; for (auto& z : zs) for (int m = 0; m < 3; ++m) { manif::SE2<Q> x; x.coeffs() << r[(k + m) % 5], r[(k + 2 * m + 1) % 5], z; v.push_back(x); ++k; } return v; } };
template <> struct Build<manif::Rn<Q, 3> > { static std::vector<manif::Rn<Q, 3> > all(int) { std::vector<manif::Rn<Q, 3> > v; auto r = rationals(); for (int k = 0; k < 25; ++k) { manif::Rn<Q, 3> x; x.coeffs() << r[k % 5], r[(k / 5) % 5], r[(k + 2) % 5]; v.push_back(x); } return v; } };

// X hat(s) X^-1 for the homogeneous embedding; pure rotations (SO2/SO3) have hat of the rotation size and transform padded by one
template <class G, class H> static H embed_conj_impl(const G& X, const H& Hs, std::true_type) {
  return H(X.rotation() * Hs * X.inverse().rotation());
}
template <class G, class H> static H embed_conj_impl(const G& X, const H& Hs, std::false_type) {
  return H(X.transform() * Hs * X.inverse().transform());
}
template <class G, class H> static H embed_conj(const G& X, const H& Hs) {
  return embed_conj_impl(X, Hs, std::integral_constant<bool, (int)H::RowsAtCompileTime != (int)decltype(X.transform())::RowsAtCompileTime>());
}

template <class G> void run_exact(vf::Report& R, const char* gname, int level) {
  typedef typename G::Tangent T;
  typedef typename G::Vector P;
  std::vector<G> xs = Build<G>::all(level);
  auto expect = [&](bool ok, const std::string& check, const std::string& key) {
    ++R.transitions;
    if (!R.judge(check, ok ? 0 : 1, 0.5, key)) R.fail(check, check + "/" + std::string(gname) + "/" + key, 1, 0, "{}");
  };
  auto str = [](const G& x) { std::string s; for (int i = 0; i < G::RepSize; ++i) s += (i ? "," : "") + x.coeffs()(i).v.get_str(); return s; };
  std::vector<Q> r = rationals();
  P p; for (int i = 0; i < G::Dim; ++i) p(i) = r[(i + 1) % 5];
  G Id = G::Identity();
  typedef decltype(Id.transform()) TM;
  TM I = Id.transform();
  { TM E = TM::Identity(); expect(eq(I, E), "identity_is_I_exactly", "Identity"); }
  // tangents
  std::vector<T> ts;
  for (int k = 0; k < 8; ++k) { T t; for (int i = 0; i < T::DoF; ++i) t.coeffs()(i) = r[(k + 2 * i + (i * k) % 3) % 5]; ts.push_back(t); }
  size_t stride = std::max<size_t>(1, xs.size() / (level ? 60 : 24));
  for (size_t i = 0; i < xs.size(); ++i) {
    if (!R.mine()) continue;
    const G& X = xs[i];
    std::string kx = str(X);
    ++R.states; ++R.nontrivial;
    TM Mx = X.transform();
    G Xi = X.inverse();
    expect(eq(TM(Mx * Xi.transform()), I) && eq(TM(Xi.transform() * Mx), I), "inverse_is_matrix_inverse_exactly", kx);
    expect(eq(X.compose(Id).coeffs(), X.coeffs()) && eq(Id.compose(X).coeffs(), X.coeffs()), "identity_neutral_exactly", kx);
    // act = the homogeneous matrix applied to the embedded point ([p;1], [p;1;0] for SE_2(3), [p;0;1] for SGal(3); rotation() p for SO3)
    {
      P a = X.act(p);
      const int N = (int)TM::RowsAtCompileTime;
      Eigen::Matrix<Q, TM::RowsAtCompileTime, 1> h = Eigen::Matrix<Q, TM::RowsAtCompileTime, 1>::Zero();
      for (int q = 0; q < G::Dim; ++q) h(q) = p(q);
      if (HomSlot<G>::value >= 0) h(HomSlot<G>::value) = Q(1); else h(N - 1) = Q(1);
      Eigen::Matrix<Q, TM::RowsAtCompileTime, 1> r = Mx * h;
      bool ok = true; for (int q = 0; q < G::Dim; ++q) ok = ok && r(q) == a(q);
      expect(ok, "act_is_matrix_applied_to_homogeneous_point_exactly", kx);
    }
    // Adj(X) s = vee(X hat(s) X^-1)
    for (size_t k = 0; k < 2; ++k) {
      const T& s = ts[(i + k) % ts.size()];
      typename T::LieAlg H = s.hat();
      T lhs; lhs.coeffs() = X.adj() * s.coeffs();
      typename T::LieAlg C = embed_conj(X, H);
      T rhs = T::Vee(C);
      expect(eq(lhs.coeffs(), rhs.coeffs()) && eq(rhs.hat(), C), "adj_is_conjugation_exactly", kx);
    }
    for (size_t j = 0; j < xs.size(); j += stride) {
      const G& Y = xs[j];
      ++R.states;
      G Z = X.compose(Y);
      expect(eq(Z.transform(), TM(Mx * Y.transform())), "compose_is_matrix_product_exactly", kx + "*" + str(Y));
      expect(eq(Z.adj(), (X.adj() * Y.adj()).eval()), "Adj_XY_is_AdjX_AdjY_exactly", kx + "*" + str(Y));
      const G& W = xs[(i + j + 1) % xs.size()];
      expect(eq(((X * Y) * W).coeffs(), (X * (Y * W)).coeffs()) || eq(((X * Y) * W).transform(), (X * (Y * W)).transform()), "associativity_exactly", kx);
    }
  }
  // Lie algebra
  for (int i = 0; i < T::DoF; ++i) {
    typename T::LieAlg Gi = T::Generator(i);
    T e = T::Zero(); e.coeffs()(i) = Q(1);
    expect(eq(e.hat(), Gi), "hat_of_basis_vector_is_generator_exactly", "i=" + std::to_string(i));
  }
  typename T::InnerWeightsMatrix W = T::InnerWeights();
  for (size_t a = 0; a < ts.size(); ++a)
    for (size_t b = 0; b < ts.size(); ++b) {
      if (!R.mine()) continue;
      ++R.states;
      const T &ta = ts[a], &tb = ts[b];
      std::string key = "a" + std::to_string(a) + ",b" + std::to_string(b);
      typename T::LieAlg A = ta.hat(), B = tb.hat();
      typename T::LieAlg S = T::LieAlg::Zero(); for (int i = 0; i < T::DoF; ++i) S += ta.coeffs()(i) * T::Generator(i);
      expect(eq(A, S), "hat_is_sum_ti_Gi_exactly", key);
      expect(eq(T::Vee(A).coeffs(), ta.coeffs()), "vee_hat_is_identity_exactly", key);
      T br = T::Bracket(ta, tb);
      expect(eq(br.hat(), (A * B - B * A).eval()), "bracket_is_commutator_exactly", key);
      expect(eq(T::Bracket(tb, ta).coeffs(), (-br.coeffs()).eval()), "bracket_antisymmetric_exactly", key);
      Q fro(0); for (int i = 0; i < A.rows(); ++i) for (int j = 0; j < A.cols(); ++j) fro += A(i, j) * B(i, j);
      expect(ta.inner(tb) == fro, "inner_is_frobenius_exactly", key);
      expect(ta.squaredWeightedNorm() == ta.inner(ta), "squaredWeightedNorm_is_inner_exactly", key);
      const T& tc = ts[(a + b + 1) % ts.size()];
      T jac = T::Bracket(ta, T::Bracket(tb, tc)) + T::Bracket(tb, T::Bracket(tc, ta)) + T::Bracket(tc, T::Bracket(ta, tb));
      expect(is_zero(jac.coeffs()), "jacobi_identity_exactly", key);
      T sum = ta + tb;
      expect(eq(sum.hat(), (A + B).eval()), "hat_additive_exactly", key);
    }
  expect(eq(W, W.transpose().eval()), "inner_weights_symmetric_exactly", "W");
  // positive definiteness by an exact LDL^T: all pivots > 0
  {
    typename T::InnerWeightsMatrix M = W; bool pd = true;
    for (int k = 0; k < T::DoF && pd; ++k) { if (!(M(k, k) > Q(0))) { pd = false; break; } for (int i = k + 1; i < T::DoF; ++i) { Q f = M(i, k) / M(k, k); for (int j = k; j < T::DoF; ++j) M(i, j) -= f * M(k, j); } }
    expect(pd, "inner_weights_positive_definite_exactly", "W");
  }
}

int main(int argc, char** argv) {
  vf::Args a; a.parse(argc, argv);
  vf::Report R(VF_PROP, VF_UNIT, a);
  int level = a.thorough() ? 1 : 0;
  run_exact<manif::SO3<Q> >(R, "SO3", level);
  run_exact<manif::SE3<Q> >(R, "SE3", level);
  run_exact<manif::SE_2_3<Q> >(R, "SE_2_3", level);
  run_exact<manif::SGal3<Q> >(R, "SGal3", level);
  // SO2::rotation() goes through atan2/cos/sin: outside the exact domain (covered by the floating lattices)
  run_exact<manif::SE2<Q> >(R, "SE2", level);
  run_exact<manif::Rn<Q, 3> >(R, "R3", level);
  R.product_size = R.states;
  R.sample("{\"cell\":\"compose_is_matrix_product_exactly/SO3\",\"X\":\"(2/3,2/3,0,-1/3) style rational unit quaternions, both hemispheres\",\"note\":\"residual must be exactly zero\"}");
  R.write();
  return 0;
}
