// C04 — plus / minus / between are the documented compositions; member and operator aliases agree.
// (free functions of functions.h: c04_free.cpp)
#include "harness.hpp"

template <class G> struct C04 {
  typedef typename G::Scalar S;
  typedef typename G::Tangent T;
  typedef vf::Bars<S> B;
  vf::Report& R;
  const ref::Group& g;
  lat::Cfg cfg;
  std::set<std::string> distinct;
  C04(vf::Report& r) : R(r), g(vf::RG<G>()), cfg(vf::make_cfg<S>(r.args)) {}

  void alias(const char* name, const G& got, const G& canon, ref::Real lin, const std::string& key, const std::string& detail) {
    bool same = vf::bits_equal(got.coeffs(), canon.coeffs());
    if (same) R.count("alias_bit_identical");
    else R.count("alias_not_bit_identical");
    ref::Real d = same ? 0 : g.diffM(vf::Mof(got), vf::Mof(canon), lin);
    if (!R.judge(std::string("alias_") + name, d, B::B1, key)) R.fail(std::string("alias_") + name, std::string(name) + "/" + key, d, B::B1, detail + "}");
  }
  void aliast(const char* name, const T& got, const T& canon, ref::Real lin, const std::string& key, const std::string& detail) {
    bool same = vf::bits_equal(got.coeffs(), canon.coeffs());
    if (same) R.count("alias_bit_identical");
    else R.count("alias_not_bit_identical");
    ref::Real d = same ? 0 : g.difft(vf::toL(got.coeffs()), vf::toL(canon.coeffs()), lin);
    if (!R.judge(std::string("alias_") + name, d, B::B1, key)) R.fail(std::string("alias_") + name, std::string(name) + "/" + key, d, B::B1, detail + "}");
  }

  void run() {
    // quick: X = every k-th element of the reduced lattice (<= ~160), second operand = tiny lattice (+ near-pi tangents);
    // thorough: X = the whole reduced lattice, second operand = tiny lattice + every k-th element of the reduced one
    std::vector<lat::XAtom> xall = lat::elements(g, cfg, lat::REDUCED);
    std::vector<lat::XAtom> xs, ys = lat::elements(g, cfg, lat::TINY);
    std::vector<lat::TAtom> ts = lat::tangents(g, cfg, lat::TINY), tred = lat::tangents(g, cfg, lat::REDUCED);
    {
      size_t stride = cfg.thorough ? 1 : std::max<size_t>(1, xall.size() / 160);
      if (stride > 1 && stride % 2 == 0) ++stride;  // odd stride: both hemispheres keep appearing
      for (size_t i = 0; i < xall.size(); i += stride) xs.push_back(xall[i]);
      if (cfg.thorough) {
        size_t s2 = std::max<size_t>(1, xall.size() / 60); if (s2 % 2 == 0) ++s2;
        for (size_t i = 1; i < xall.size(); i += s2) ys.push_back(xall[i]);
        size_t s3 = std::max<size_t>(1, tred.size() / 60);
        for (size_t i = 1; i < tred.size(); i += s3) ts.push_back(tred[i]);
      }
      // relative tangents close to pi
      size_t cnt = 0;
      for (size_t i = 0; i < tred.size(); ++i)
        if (tred[i].theta > 3.1L && (cnt++ % 3 == 0)) ts.push_back(tred[i]);
    }
    R.product_size = (long)xs.size() * ((long)ts.size() + (long)ys.size());
    for (size_t i = 0; i < xs.size(); ++i) {
      const lat::XAtom& xa = xs[i];
      G X = vf::make_elem<G>(xa.c);
      ref::Mat Mx = vf::Mof(X);
      std::string dx = "{" + vf::kv("X", vf::hexvec(X.coeffs())) + "," + vf::kv("X_dec", vf::decvec(X.coeffs()));
      for (size_t j = 0; j < ts.size(); ++j) {
        if (!R.mine()) continue;
        const lat::TAtom& ta = ts[j];
        std::string key = xa.key + "+" + ta.key;
        if (!R.want(key)) continue;
        T t = vf::make_tan<T>(ta.t);
        ref::Vec tl = vf::toL(t.coeffs());
        ref::Mat Et = g.exp(tl);
        std::string dd = dx + "," + vf::kv("t", vf::hexvec(t.coeffs())) + "," + vf::kv("t_dec", vf::decvec(t.coeffs()));
        ++R.states;
        // definitions
        G Rp = X.rplus(t), Lp = X.lplus(t);
        R.transitions += 2;
        ref::Mat Er = Mx * Et, El = Et * Mx;
        ref::Real linr = g.lin_scale_M(Mx.cwiseAbs() * Et.cwiseAbs()), linl = g.lin_scale_M(Et.cwiseAbs() * Mx.cwiseAbs());
        ref::Real d = g.diffM(vf::Mof(Rp), Er, linr);
        if (!R.judge("rplus_is_X_exp_t", d, B::B3, key)) R.fail("rplus_is_X_exp_t", "rplus/" + key, d, B::B3, dd + "," + vf::kv("got", vf::decvec(Rp.coeffs())) + "," + vf::kv("M_ref", vf::decmat(Er)) + "}");
        d = g.diffM(vf::Mof(Lp), El, linl);
        if (!R.judge("lplus_is_exp_t_X", d, B::B3, key)) R.fail("lplus_is_exp_t_X", "lplus/" + key, d, B::B3, dd + "," + vf::kv("got", vf::decvec(Lp.coeffs())) + "," + vf::kv("M_ref", vf::decmat(El)) + "}");
        // aliases of rplus
        alias("X+t", X + t, Rp, linr, key, dd);
        alias("X.plus(t)", X.plus(t), Rp, linr, key, dd);
        { G Xc = X; Xc += t; alias("X+=t", Xc, Rp, linr, key, dd); }
        alias("t.rplus(X)", t.rplus(X), Rp, linr, key, dd);
        // aliases of lplus
        alias("t+X", t + X, Lp, linl, key, dd);
        alias("t.plus(X)", t.plus(X), Lp, linl, key, dd);
        alias("t.lplus(X)", t.lplus(X), Lp, linl, key, dd);
        // view operands
        {
          Eigen::Map<const G> Xm(X.data());
          Eigen::Map<const T> tm(t.data());
          alias("Map<const>X.rplus(Map<const>t)", Xm.rplus(tm), Rp, linr, key, dd);
          alias("Map<const>X.lplus(Map<const>t)", Xm.lplus(tm), Lp, linl, key, dd);
          alias("Map<const>X+Map<const>t", Xm + tm, Rp, linr, key, dd);
          alias("Map<const>t+X", tm + X, Lp, linl, key, dd);
          G buf = X;
          Eigen::Map<G> Xw(buf.data());
          Xw += tm;
          alias("Map X+=t", buf, Rp, linr, key, dd);
        }
        R.transitions += 12;
        // (X+t)-X = t whenever the rotation of t is below pi
        if (ta.theta < lat::PI - 1e-6L) {
          T back = Rp - X;
          ref::Real lin = std::max(linr, ta.lin);
          d = g.difft(vf::toL(back.coeffs()), tl, lin);
          if (!R.judge("(X+t)-X_is_t", d, B::B3, key)) R.fail("(X+t)-X_is_t", "plus.minus/" + key, d, B::B3, dd + "," + vf::kv("got", vf::decvec(back.coeffs())) + "}");
          ++R.transitions;
        }
        if (xa.theta != 0 && ta.theta != 0 && distinct.insert(key).second) ++R.nontrivial;
        if (i == 0 && j == 0) R.sample("{" + vf::kv("cell", vf::q("rplus/" + key)) + "," + vf::kv("X", vf::decvec(X.coeffs())) + "," + vf::kv("t", vf::decvec(t.coeffs())) + "," + vf::kv("X+t", vf::decvec(Rp.coeffs())) + "}");
      }
      for (size_t j = 0; j < ys.size(); ++j) {
        if (!R.mine()) continue;
        const lat::XAtom& ya = ys[j];
        std::string key = xa.key + "-" + ya.key;
        if (!R.want(key)) continue;
        G Y = vf::make_elem<G>(ya.c);
        ref::Mat My = vf::Mof(Y);
        ref::Mat Myi = g.inv(My), Mxi = g.inv(Mx);
        std::string dd = dx + "," + vf::kv("Y", vf::hexvec(Y.coeffs())) + "," + vf::kv("Y_dec", vf::decvec(Y.coeffs()));
        ++R.states;
        T rm = X.rminus(Y), lm = X.lminus(Y);
        G bt = X.between(Y);
        R.transitions += 3;
        ref::Mat Er = Myi * Mx, El = Mx * Myi, Eb = Mxi * My;
        ref::Real linr = g.lin_scale_M(Myi.cwiseAbs() * Mx.cwiseAbs()), linl = g.lin_scale_M(Mx.cwiseAbs() * Myi.cwiseAbs()),
                  linb = g.lin_scale_M(Mxi.cwiseAbs() * My.cwiseAbs());
        bool fr = vf::all_finite(rm.coeffs()), fl = vf::all_finite(lm.coeffs());
        ref::Real d = fr ? g.diffM(g.exp(vf::toL(rm.coeffs())), Er, std::max(linr, g.lin_scale_t(vf::toL(rm.coeffs())))) : INFINITY;
        if (!R.judge("rminus_is_log_Yinv_X", d, B::B3, key)) R.fail("rminus_is_log_Yinv_X", "rminus/" + key, d, B::B3, dd + "," + vf::kv("got", vf::decvec(rm.coeffs())) + "," + vf::kv("M_ref", vf::decmat(Er)) + "}");
        d = fl ? g.diffM(g.exp(vf::toL(lm.coeffs())), El, std::max(linl, g.lin_scale_t(vf::toL(lm.coeffs())))) : INFINITY;
        if (!R.judge("lminus_is_log_X_Yinv", d, B::B3, key)) R.fail("lminus_is_log_X_Yinv", "lminus/" + key, d, B::B3, dd + "," + vf::kv("got", vf::decvec(lm.coeffs())) + "," + vf::kv("M_ref", vf::decmat(El)) + "}");
        d = g.diffM(vf::Mof(bt), Eb, linb);
        if (!R.judge("between_is_Xinv_Y", d, 2 * B::B1, key)) R.fail("between_is_Xinv_Y", "between/" + key, d, 2 * B::B1, dd + "," + vf::kv("got", vf::decvec(bt.coeffs())) + "," + vf::kv("M_ref", vf::decmat(Eb)) + "}");
        // principal values (relative rotation below pi-1e-6)
        bool ok = false;
        ref::Vec lr = g.log(Er, &ok);
        bool inside = ok && g.max_rot_angle(lr) < lat::PI - 1e-6L;
        if (inside && fr) {
          ref::Real lin = std::max(linr, g.lin_scale_t(lr));
          d = g.difft(vf::toL(rm.coeffs()), lr, lin);
          if (!R.judge("rminus_principal", d, B::B3, key)) R.fail("rminus_principal", "rminus/" + key, d, B::B3, dd + "," + vf::kv("got", vf::decvec(rm.coeffs())) + "," + vf::kv("ref", vf::decvec(lr)) + "}");
          // X + (Y - X) = Y  (relative rotation is the same angle)
          G Yb = X + (Y - X);
          ref::Real l2 = std::max(g.lin_scale_M(Mx.cwiseAbs() * Eb.cwiseAbs()), lin);
          d = g.diffM(vf::Mof(Yb), My, l2);
          if (!R.judge("X+(Y-X)_is_Y", d, 2 * B::B3, key)) R.fail("X+(Y-X)_is_Y", "minus.plus/" + key, d, 2 * B::B3, dd + "," + vf::kv("got", vf::decvec(Yb.coeffs())) + "}");
          R.transitions += 2;
          R.count("relative_rotation_inside_injectivity_radius");
        } else R.count("relative_rotation_at_or_beyond_pi-1e-6");
        // aliases
        ref::Real lt = std::max(linr, g.lin_scale_t(vf::toL(rm.coeffs())));
        aliast("X-Y", X - Y, rm, lt, key, dd);
        aliast("X.minus(Y)", X.minus(Y), rm, lt, key, dd);
        {
          G c = X.compose(Y);
          ref::Real lc = g.lin_scale_M(Mx.cwiseAbs() * My.cwiseAbs());
          G Xc = X; Xc *= Y;
          alias("X*=Y", Xc, c, lc, key, dd);
          Eigen::Map<const G> Xm(X.data()), Ym(Y.data());
          alias("Map<const>X*Map<const>Y", Xm * Ym, c, lc, key, dd);
          aliast("Map<const>X-Map<const>Y", Xm - Ym, rm, lt, key, dd);
          aliast("Map<const>X.lminus(Map<const>Y)", Xm.lminus(Ym), lm, lt, key, dd);
          alias("Map<const>X.between(Map<const>Y)", Xm.between(Ym), bt, linb, key, dd);
          G buf = X; Eigen::Map<G> Xw(buf.data()); Xw *= Ym;
          alias("Map X*=Y", buf, c, lc, key, dd);
        }
        R.transitions += 9;
        if (xa.theta != 0 && ya.theta != 0 && distinct.insert(key).second) ++R.nontrivial;
        if (i == xs.size() / 2 && j == 0) R.sample("{" + vf::kv("cell", vf::q("rminus/" + key)) + "," + vf::kv("X", vf::decvec(X.coeffs())) + "," + vf::kv("Y", vf::decvec(Y.coeffs())) + "," + vf::kv("X-Y", vf::decvec(rm.coeffs())) + "}");
      }
    }
  }
};

template <class G> void run_c04(vf::Report& R) { C04<G> c(R); c.run(); }
VF_MAIN("C04", run_c04)
