// C14 — the const API is safe to use concurrently, including the first use of lazily initialised statics.
// Thread bodies (this file) are compiled with clang++ -fsanitize=thread -c so that every memory access and every
// static-initialisation guard is hooked; the scheduler / race detector / explorer live in engine/sched/sched.cpp.
#include <manif/manif.h>
#include <cstring>

#ifndef VF_GROUP_TYPE
#error "VF_GROUP_TYPE"
#endif
typedef VF_GROUP_TYPE G;
typedef G::Tangent T;
typedef G::Scalar S;
typedef G::Vector P;

struct VfOp { const char* name; void (*fn)(unsigned char* out, int* len); };

// shared const operands, initialised before the threads are spawned
static G gX, gY;
static T gt, gs;
static P gp;

template <class M> static void put(const M& m, unsigned char* out, int* len) {
  typename M::PlainObject p = m;
  std::memcpy(out + *len, p.data(), sizeof(typename M::Scalar) * p.size());
  *len += (int)(sizeof(typename M::Scalar) * p.size());
}
static void puts_(S v, unsigned char* out, int* len) { std::memcpy(out + *len, &v, sizeof v); *len += (int)sizeof v; }

#define OP(NAME, BODY) static void NAME(unsigned char* out, int* len) { *len = 0; BODY }
OP(op_identity, put(G::Identity().coeffs(), out, len);)
OP(op_setidentity, G a; a.setIdentity(); put(a.coeffs(), out, len);)
OP(op_zero, put(T::Zero().coeffs(), out, len);)
OP(op_gen0, put(T::Generator(0), out, len);)
OP(op_genlast, put(T::Generator(T::DoF - 1), out, len);)
OP(op_innerweights, put(T::InnerWeights(), out, len);)
OP(op_adj, put(gX.adj(), out, len);)
OP(op_rjac, put(gt.rjac(), out, len);)
OP(op_ljac, put(gt.ljac(), out, len);)
OP(op_smalladj, put(gt.smallAdj(), out, len);)
OP(op_inner, puts_(gt.inner(gs), out, len); puts_(gt.weightedNorm(), out, len);)
OP(op_isapprox, unsigned char b = (gX.isApprox(gY) ? 1 : 0) | (gX == gX ? 2 : 0); out[0] = b; *len = 1;)
OP(op_inverse, put(gX.inverse().coeffs(), out, len);)
OP(op_log, put(gX.log().coeffs(), out, len);)
OP(op_compose, put((gX * gY).coeffs(), out, len);)
OP(op_exp, put(gt.exp().coeffs(), out, len);)
OP(op_act, put(gX.act(gp), out, len);)
OP(op_hat, put(gt.hat(), out, len);)
OP(op_rminus_J, G::Jacobian a; G::Jacobian b; put(gX.rminus(gY, a, b).coeffs(), out, len); put(a, out, len); put(b, out, len);)
OP(op_between, put(gX.between(gY).coeffs(), out, len);)
OP(op_rjacinv, put(gt.rjacinv(), out, len);)
OP(op_bracket, put(T::Bracket(gt, gs).coeffs(), out, len);)

extern "C" {
VfOp vf_ops[] = {
    {"static:Identity()", op_identity}, {"static:setIdentity()", op_setidentity}, {"static:Tangent::Zero()", op_zero}, {"static:Generator(0)", op_gen0},
    {"static:Generator(DoF-1)", op_genlast}, {"static:InnerWeights()", op_innerweights}, {"static:X.adj()", op_adj}, {"static:t.rjac()", op_rjac},
    {"static:t.ljac()", op_ljac}, {"static:t.smallAdj()", op_smalladj}, {"static:t.inner(s)", op_inner}, {"static:X.isApprox(Y)", op_isapprox},
    {"X.inverse()", op_inverse}, {"X.log()", op_log}, {"X*Y", op_compose}, {"t.exp()", op_exp}, {"X.act(p)", op_act}, {"t.hat()", op_hat},
    {"X.rminus(Y,J,J)", op_rminus_J}, {"X.between(Y)", op_between}, {"t.rjacinv()", op_rjacinv}, {"Bracket(t,s)", op_bracket}};
int vf_nops = (int)(sizeof(vf_ops) / sizeof(vf_ops[0]));
const char* vf_unit_name() { return VF_UNIT; }
void vf_init_shared() {
  for (int i = 0; i < T::DoF; ++i) { gt.coeffs()(i) = S(0.1 * (i + 1) * ((i % 2) ? -1 : 1)); gs.coeffs()(i) = S(0.05 * (i + 2)); }
  gX = gt.exp();
  gY = gs.exp();
  for (int i = 0; i < G::Dim; ++i) gp(i) = S(0.3 * (i + 1));
}
}
