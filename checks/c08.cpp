// C08 — elements stay valid under arbitrarily long operation histories.  Engine E3:
//  (i)  breadth-first exploration of ALL operation sequences up to a depth from several start elements
//       (states de-duplicated on coefficient bit patterns),
//  (ii) ALL periodic histories with period <= P over the same alphabet, run for N steps.
// Invariant in every state: finite coefficients, | |rotation part| - 1 | < Constants<Scalar>::eps,
// no exception (the assertion-enabled build turns any invalid intermediate into manif::invalid_argument).
#include "harness.hpp"
#include <manif/algorithms/interpolation.h>
#include <manif/algorithms/average.h>
#include <functional>
#include <unordered_set>

#ifdef VF_FN_ALL
#define ON(k) 1
#else
#define ON(k) (VF_FN == (k))
#endif

template <class G> struct C08 {
  typedef typename G::Scalar S;
  typedef typename G::Tangent T;
  typedef vf::Bars<S> B;
  vf::Report& R;
  const ref::Group& g;
  lat::Cfg cfg;
  struct Op { std::string name; std::function<G(const G&)> f; };
  std::vector<Op> ops;
  std::vector<G> Y;
  std::vector<T> tk;
  std::vector<std::pair<G, std::string> > starts;
  C08(vf::Report& r) : R(r), g(vf::RG<G>()), cfg(vf::make_cfg<S>(r.args)) {}

  static std::string bits(const G& x) { return std::string((const char*)x.data(), sizeof(S) * G::RepSize); }

  // scale the rotation coefficients of every block by (1 + kappa*eps): an element at a chosen place of the acceptance band
  G off_norm(const G& x, ref::Real kappa) {
    ref::Vec c = vf::toL(x.coeffs());
    std::vector<char> m = g.rot_coeff_mask();
    for (int i = 0; i < g.Rep; ++i) if (m[i]) c(i) *= (1 + kappa * (ref::Real)manif::Constants<S>::eps);
    return vf::make_raw<G>(c);
  }

  void build_alphabet() {
    std::vector<lat::TAtom> ts = lat::tangents(g, cfg, lat::TINY);
    // constant pool: generic, near-pi, tiny, and O(1)-linear tangents (linear parts kept <= 1 so that long products stay in range)
    auto pick = [&](ref::Real th_lo, ref::Real th_hi, ref::Real lin_hi, size_t skip) {
      size_t seen = 0;
      for (size_t i = 0; i < ts.size(); ++i)
        if (ts[i].theta >= th_lo && ts[i].theta <= th_hi && ts[i].lin <= lin_hi) { if (seen++ == skip) return ts[i]; }
      return ts[ts.size() / 2];
    };
    std::vector<lat::TAtom> pool;
    pool.push_back(pick(0.5L, 1.5L, 1, 1));     // generic
    pool.push_back(pick(2.9L, 3.1L, 1, 0));     // near pi
    pool.push_back(pick(1e-10L, 1e-8L, 1, 0));  // tiny
    pool.push_back(pick(1e-4L, 2e-3L, 1, 1));
    for (size_t i = 0; i < pool.size(); ++i) {
      ref::Vec t = pool[i].t;
      // de-correlate: flip sign / permute a little so that products do not commute trivially
      if (i % 2) t = -t;
      tk.push_back(vf::make_tan<T>(t));
      Y.push_back(vf::make_elem<G>(g.fromM(g.exp(vf::toL(tk.back().coeffs())), (i % 2) ? -1 : 1)));
    }
    // one pool element sitting at the edge of the acceptance band
    Y.push_back(off_norm(Y[0], 0.45L));
    for (size_t k = 0; k < Y.size(); ++k) {
      const G Yk = Y[k];
      std::string s = std::to_string(k);
      ops.push_back(Op{"X*Y" + s, [Yk](const G& X) { return G(X * Yk); }});
      ops.push_back(Op{"Y" + s + "*X", [Yk](const G& X) { return G(Yk * X); }});
      ops.push_back(Op{"X.between(Y" + s + ")", [Yk](const G& X) { return G(X.between(Yk)); }});
    }
    { const G Y0 = Y[0]; ops.push_back(Op{"X*=Y0", [Y0](const G& X) { G c = X; c *= Y0; return c; }}); }
    for (size_t k = 0; k < tk.size(); ++k) {
      const T t = tk[k];
      std::string s = std::to_string(k);
      ops.push_back(Op{"X+t" + s, [t](const G& X) { return G(X + t); }});
      ops.push_back(Op{"t" + s + "+X", [t](const G& X) { return G(t + X); }});
    }
    { const T t0 = tk[0]; ops.push_back(Op{"X+=t0", [t0](const G& X) { G c = X; c += t0; return c; }}); }
    ops.push_back(Op{"X.inverse()", [](const G& X) { return G(X.inverse()); }});
    ops.push_back(Op{"X.log().exp()", [](const G& X) { return G(X.log().exp()); }});
    ops.push_back(Op{"X*X", [](const G& X) { return G(X * X); }});
    ops.push_back(Op{"cast", [](const G& X) {
      typedef typename std::conditional<std::is_same<S, double>::value, float, double>::type O;
      return G(X.template cast<O>().template cast<S>()); }});
    ops.push_back(Op{"Random(seed 42)", [](const G&) { srand(42); return G(G::Random()); }});
    ops.push_back(Op{"setIdentity", [](const G& X) { G c = X; c.setIdentity(); return c; }});
    {
      const G Y0 = Y[0], Y1 = Y[1];
      const T v0 = tk[0], v1 = tk[3];
      const manif::INTERP_METHOD ms[3] = {manif::INTERP_METHOD::SLERP, manif::INTERP_METHOD::CUBIC, manif::INTERP_METHOD::CNSMOOTH};
      const char* mn[3] = {"SLERP", "CUBIC", "CNSMOOTH"};
      const double ss[3] = {0, 0.25, 1};
      for (int m = 0; m < 3; ++m)
        for (int k = 0; k < 3; ++k) {
          manif::INTERP_METHOD mm = ms[m]; S s = S(ss[k]);
          ops.push_back(Op{std::string("interpolate(X,Y0,") + std::to_string(ss[k]).substr(0, 4) + "," + mn[m] + ")", [Y0, mm, s](const G& X) { return G(manif::interpolate(X, Y0, s, mm)); }});
        }
      ops.push_back(Op{"interpolate(X,Y1,0.25,CUBIC,v0,v1)", [Y1, v0, v1](const G& X) { return G(manif::interpolate(X, Y1, S(0.25), manif::INTERP_METHOD::CUBIC, v0, v1)); }});
      ops.push_back(Op{"interpolate(X,Y1,0.75,CNSMOOTH,v0,v1)", [Y1, v0, v1](const G& X) { return G(manif::interpolate(X, Y1, S(0.75), manif::INTERP_METHOD::CNSMOOTH, v0, v1)); }});
      // averaging is exercised inside its documented domain (C16: points within a moderate geodesic radius of each other):
      // the set is {X, X+d0, X+d1} with |d| ~ 0.1 .. 0.3
      T d0 = tk[0] * S(0.2), d1 = tk[3] * S(-30.0);
      { ref::Real m = 0; for (int i = 0; i < T::DoF; ++i) m = std::max(m, (ref::Real)std::fabs((double)d1.coeffs()(i))); if (m > 0.3L) d1 = d1 * S(0.3L / m); }
      ops.push_back(Op{"average_biinvariant({X,X+d0,X+d1})", [d0, d1](const G& X) { std::vector<G> v = {X, X + d0, X + d1}; return G(manif::average_biinvariant(v)); }});
#if ON(2)
      ops.push_back(Op{"average_frechet_left({X,X+d0,X+d1})", [d0, d1](const G& X) { std::vector<G> v = {X, X + d0, X + d1}; return G(manif::average_frechet_left(v)); }});
      ops.push_back(Op{"average_frechet_right({X,X+d0,X+d1})", [d0, d1](const G& X) { std::vector<G> v = {X, X + d0, X + d1}; return G(manif::average_frechet_right(v)); }});
#endif
#if ON(3)
      ops.push_back(Op{"average({X,X+d0,X+d1})", [d0, d1](const G& X) { std::vector<G> v = {X, X + d0, X + d1}; return G(manif::average(v)); }});
#endif
    }
    // start elements: identity, generic, near-pi with w<0, and both edges of the acceptance band
    starts.push_back(std::make_pair(G::Identity(), "Identity"));
    starts.push_back(std::make_pair(Y[0], "Y0"));
    starts.push_back(std::make_pair(Y[1], "Y1(near pi,w<0)"));
    starts.push_back(std::make_pair(off_norm(Y[0], 0.5L), "Y0*(1+0.5eps)"));
    starts.push_back(std::make_pair(off_norm(Y[0], -0.9L), "Y0*(1-0.9eps)"));
    starts.push_back(std::make_pair(off_norm(Y[3], 0.9L), "Y3*(1+0.9eps)"));
  }

  // invariant; returns false (and records) on violation
  bool invariant(const G& X, const std::string& hist, const std::string& check_suffix) {
    bool fin = vf::all_finite(X.coeffs());
    if (!R.judge("state_finite" + check_suffix, fin ? 0 : 1, 0.5, hist)) {
      R.fail("state_finite" + check_suffix, hist, 1, 0, "{" + vf::kv("coeffs", vf::decvec(X.coeffs())) + "}");
      return false;
    }
    ref::Real nd = vf::norm_dev(X);
    if (!R.judge("state_unit_norm" + check_suffix, nd, B::eps_lib, hist)) {
      R.fail("state_unit_norm" + check_suffix, hist, nd, B::eps_lib, "{" + vf::kv("coeffs", vf::hexvec(X.coeffs())) + "," + vf::kv("coeffs_dec", vf::decvec(X.coeffs())) + "}");
      return false;
    }
    return true;
  }
  bool lin_in_box(const G& X) {
    std::vector<char> m = g.rot_coeff_mask();
    for (int i = 0; i < g.Rep; ++i) if (!m[i] && !(std::fabs((double)X.coeffs()(i)) <= 1e6)) return false;
    return true;
  }

  // apply op; any exception is a violation
  bool step(const Op& op, const G& X, G& out, const std::string& hist) {
    ++R.transitions;
    try { out = op.f(X); }
    catch (std::exception& e) {
      R.judge("no_exception", 1, 0.5, hist);
      R.fail("no_exception", hist, 1, 0, "{" + vf::kv("what", vf::q(e.what())) + "," + vf::kv("state", vf::hexvec(X.coeffs())) + "," + vf::kv("state_dec", vf::decvec(X.coeffs())) + "}");
      return false;
    }
    R.judge("no_exception", 0, 0.5, hist);
    return true;
  }

  void bfs(size_t si, int depth) {
    struct Node { G x; int parent; int op; };
    std::vector<Node> nodes;
    std::unordered_set<std::string> seen;
    nodes.push_back(Node{starts[si].first, -1, -1});
    seen.insert(bits(starts[si].first));
    auto history = [&](int n, int extra_op) {
      std::vector<int> h;
      if (extra_op >= 0) h.push_back(extra_op);
      for (int k = n; nodes[k].parent >= 0; k = nodes[k].parent) h.push_back(nodes[k].op);
      std::string s = "start=" + starts[si].second;
      for (size_t i = h.size(); i-- > 0;) s += ";" + ops[h[i]].name;
      return s;
    };
    size_t lo = 0;
    for (int d = 1; d <= depth; ++d) {
      size_t hi = nodes.size();
      for (size_t n = lo; n < hi; ++n)
        for (size_t o = 0; o < ops.size(); ++o) {
          G out;
          std::string hist_lazy;
          const G cur = nodes[n].x;
          if (!step(ops[o], cur, out, "bfs/" + (hist_lazy = history((int)n, (int)o)))) continue;
          if (!invariant(out, "bfs/" + hist_lazy, "")) continue;
          if (!lin_in_box(out)) { R.count("bfs_left_linear_box"); continue; }
          if (seen.insert(bits(out)).second) { nodes.push_back(Node{out, (int)n, (int)o}); ++R.states; if (vf::norm_dev(out) > 0) ++R.nontrivial; }
          else R.count("bfs_duplicate_states_merged");
        }
      lo = hi;
      R.counters["bfs_max_depth_completed"] = std::max<long>(R.counters["bfs_max_depth_completed"], d);
    }
    if (nodes.size() > 3) R.sample("{" + vf::kv("history", vf::q(history((int)nodes.size() - 1, -1))) + "," + vf::kv("state", vf::decvec(nodes.back().x.coeffs())) + "}");
  }

  void periodic(size_t si, const std::vector<int>& word, long steps) {
    G X = starts[si].first;
    std::string name = "periodic/start=" + starts[si].second + ";(";
    for (size_t i = 0; i < word.size(); ++i) name += (i ? ";" : "") + ops[word[i]].name;
    name += ")^N";
    if (!R.want(name)) return;
    ref::Real worst = 0, worst_decade = 0;
    long next_decade = 10;
    std::vector<double> per_decade;
    ++R.states;
    for (long s = 0; s < steps; ++s) {
      G out;
      const Op& op = ops[word[s % word.size()]];
      ++R.transitions;
      try { out = op.f(X); }
      catch (std::exception& e) {
        R.judge("no_exception", 1, 0.5, name);
        R.fail("no_exception", name, 1, 0, "{" + vf::kv("step", std::to_string(s)) + "," + vf::kv("what", vf::q(e.what())) + "," + vf::kv("state", vf::hexvec(X.coeffs())) + "}");
        return;
      }
      X = out;
      if (!vf::all_finite(X.coeffs())) {
        R.judge("state_finite_periodic", 1, 0.5, name);
        R.fail("state_finite_periodic", name, 1, 0, "{" + vf::kv("step", std::to_string(s)) + "}");
        return;
      }
      ref::Real nd = vf::norm_dev(X);
      if (nd > worst_decade) worst_decade = nd;
      if (nd > worst) worst = nd;
      if (!(nd < B::eps_lib)) {
        R.judge("state_unit_norm_periodic", nd, B::eps_lib, name);
        R.fail("state_unit_norm_periodic", name, nd, B::eps_lib, "{" + vf::kv("step", std::to_string(s)) + "," + vf::kv("coeffs", vf::hexvec(X.coeffs())) + "}");
        return;
      }
      if (s + 1 == next_decade) { per_decade.push_back((double)(worst_decade / B::eps_lib)); worst_decade = 0; next_decade *= 10; }
      if (!lin_in_box(X)) { R.count("periodic_left_linear_box"); break; }
    }
    R.judge("state_unit_norm_periodic", worst, B::eps_lib, name);
    R.judge("no_exception", 0, 0.5, name);
    if (worst > 0) ++R.nontrivial;
    // The library renormalises when |q|^2 leaves [1-eps, 1+eps], i.e. the deviation of |q| saturates at eps/2 by design.
    // A deviation that rises above that plateau and is still rising over the last decade is reported even before it
    // crosses the acceptance threshold itself.
    if (per_decade.size() >= 3) {
      double a = per_decade[per_decade.size() - 2], b = per_decade.back();
      bool growing = b > 0.75 && b > 1.2 * a;
      if (!R.judge("deviation_not_growing_above_plateau", growing ? 1 : 0, 0.5, name)) R.fail("deviation_not_growing_above_plateau", name, b, a, "{}");
    }
  }

  // --replay of a bfs cell: re-apply the recorded history op by op on a fresh start element, twice, and compare
  void replay_bfs(const std::string& key) {
    size_t p = key.find("bfs/start=");
    std::string h = key.substr(p + 4);
    std::vector<std::string> parts;
    size_t a = 0;
    while (true) { size_t b = h.find(';', a); parts.push_back(h.substr(a, b == std::string::npos ? b : b - a)); if (b == std::string::npos) break; a = b + 1; }
    for (int pass = 0; pass < 2; ++pass) {
      G X; bool found = false;
      for (size_t i = 0; i < starts.size(); ++i) if ("start=" + starts[i].second == parts[0]) { X = starts[i].first; found = true; }
      if (!found) { R.note("replay: unknown start " + parts[0]); return; }
      std::string hist = "bfs/" + parts[0];
      for (size_t k = 1; k < parts.size(); ++k) {
        bool ok = false;
        for (size_t o = 0; o < ops.size(); ++o) if (ops[o].name == parts[k]) {
          G out; hist += ";" + parts[k];
          if (!step(ops[o], X, out, hist)) return;
          X = out; ok = true;
          if (pass == 0 && !invariant(X, hist, "")) return;
          break;
        }
        if (!ok) { R.note("replay: unknown op " + parts[k]); return; }
      }
      ++R.states;
    }
  }

  void run() {
    build_alphabet();
    if (!R.args.replay.empty() && R.args.replay.find("bfs/start=") != std::string::npos) { replay_bfs(R.args.replay); return; }
    const bool q = !cfg.thorough;
    const int depth = q ? 2 : 3;
    const int nops = (int)ops.size();
    R.count("alphabet_size", nops);
    long prod = 0;
    for (size_t si = 0; si < starts.size(); ++si) {
      long level = 1, tot = 0;
      for (int d = 0; d < depth; ++d) { level *= nops; tot += level; }
      prod += tot;
    }
    const long n1 = q ? 20000 : 2000000, n2 = q ? 400 : 20000, n3 = q ? 0 : 300;
    prod += (long)starts.size() * nops + (long)nops * nops * 2 + (n3 ? (long)nops * nops * nops : 0);
    R.product_size = prod;
    for (size_t si = 0; si < starts.size(); ++si) if (R.mine()) bfs(si, depth);
    // periodic histories: all words of length 1 from every start; all words of length 2 (and 3) from two starts
    for (size_t si = 0; si < starts.size(); ++si)
      for (int a = 0; a < nops; ++a) if (R.mine()) periodic(si, std::vector<int>{a}, n1);
    for (size_t si = 1; si < starts.size(); si += 3)
      for (int a = 0; a < nops; ++a)
        for (int b = 0; b < nops; ++b) if (R.mine()) periodic(si, std::vector<int>{a, b}, n2);
    if (n3)
      for (int a = 0; a < nops; ++a)
        for (int b = 0; b < nops; ++b)
          for (int c = 0; c < nops; ++c) if (R.mine()) periodic(3, std::vector<int>{a, b, c}, n3);
    R.evaluations = R.transitions;
  }
};

template <class G> void run_c08(vf::Report& R) { C08<G> c(R); c.run(); }
VF_MAIN("C08", run_c08)
