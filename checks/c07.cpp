// C07 — Lie-algebra structure: hat, vee, generators, bracket, inner product (floating part).
#include "harness.hpp"
#include <climits>

template <class G> struct C07 {
  typedef typename G::Scalar S;
  typedef typename G::Tangent T;
  typedef vf::Bars<S> B;
  vf::Report& R;
  const ref::Group& g;
  lat::Cfg cfg;
  std::set<std::string> distinct;
  C07(vf::Report& r) : R(r), g(vf::RG<G>()), cfg(vf::make_cfg<S>(r.args)) {}

  void fail_if(bool bad, const char* name, const std::string& key, ref::Real resid, ref::Real bar, const std::string& detail) {
    ++R.transitions;
    if (!R.judge(name, bad ? std::max(resid, 2 * bar) : resid, bar, key)) R.fail(name, std::string(name) + "/" + key, resid, bar, detail);
  }

  void generators() {
    // in range: documented basis, entry by entry
    for (int i = 0; i < g.DoF; ++i) {
      if (!R.mine()) continue;
      ++R.states;
      std::string key = "i=" + std::to_string(i);
      ref::Mat E = g.gen(i);
      ref::Mat Gm = vf::toLM(T::Generator(i));
      bool ok = Gm.rows() == E.rows() && Gm.cols() == E.cols() && vf::maxabs((Gm - E)) == 0;
      fail_if(!ok, "generator_is_documented_basis", key, ok ? 0 : 1, 0.5, "{" + vf::kv("manif", vf::decmat(Gm)) + "," + vf::kv("documented", vf::decmat(E)) + "}");
      T t = T::Zero();
      ref::Mat Gm2 = vf::toLM(t.generator(i));
      fail_if(!(Gm2 - E).isZero(0), "generator_member_alias", key, 0, 0.5, "{}");
      if (distinct.insert(key).second) ++R.nontrivial;
    }
    // out of range
    const int bad[] = {-2, -1, g.DoF, g.DoF + 1, INT_MAX, INT_MIN};
    for (int k = 0; k < 6; ++k) {
      if (!R.mine()) continue;
      ++R.states;
      std::string key = "i=" + std::to_string(bad[k]);
      int outcome = 0;  // 0: no throw, 1: invalid_argument, 2: other exception
      try { T::Generator(bad[k]); } catch (manif::invalid_argument&) { outcome = 1; } catch (...) { outcome = 2; }
      fail_if(outcome != 1, "generator_out_of_range_raises_invalid_argument", key, outcome == 1 ? 0 : 1, 0.5,
              "{" + vf::kv("outcome", vf::q(outcome == 0 ? "no exception" : "other exception type")) + "}");
    }
    // inner weights
    if (R.mine()) {
      ++R.states;
      ref::Mat W = vf::toLM(T::InnerWeights()), E = g.innerW();
      fail_if(!(W - E).isZero(0), "inner_weights_are_frobenius_gram", "W", 0, 0.5, "{" + vf::kv("manif", vf::decmat(W)) + "," + vf::kv("ref", vf::decmat(E)) + "}");
      fail_if(!(W - W.transpose()).isZero(0), "inner_weights_symmetric", "W", 0, 0.5, "{}");
      Eigen::LLT<ref::Mat> llt(W);
      fail_if(llt.info() != Eigen::Success, "inner_weights_positive_definite", "W", 0, 0.5, "{}");
      T z = T::Zero();
      fail_if(!(vf::toLM(z.innerWeights()) - E).isZero(0), "innerWeights_member_alias", "W", 0, 0.5, "{}");
    }
  }

  void unary(const lat::TAtom& a) {
    T t = vf::make_tan<T>(a.t);
    ref::Vec tl = vf::toL(t.coeffs());
    ++R.states;
    std::string dt = "{" + vf::kv("t", vf::hexvec(t.coeffs())) + "}";
    typename T::LieAlg H = t.hat();
    ref::Mat Hl = vf::toLM(H), Hr = g.hat(tl);
    fail_if(!(Hl - Hr).isZero(0), "hat_is_sum_ti_Gi", a.key, vf::maxabs((Hl - Hr)), 1e-300L, dt);
    T back = T::Vee(H);
    fail_if(!vf::bits_equal(back.coeffs(), t.coeffs()), "vee_hat_is_identity", a.key, 0, 0.5, dt);
    T sv; sv.setVee(H);
    fail_if(!vf::bits_equal(sv.coeffs(), t.coeffs()), "setVee_alias", a.key, 0, 0.5, dt);
    // hat(alpha t) = alpha hat(t)
    S alpha = S(-2.5);
    T st = t * alpha;
    ref::Real d = vf::maxabs((vf::toLM(st.hat()) - (ref::Real)alpha * Hl)) / a.lin;
    fail_if(false, "hat_homogeneous", a.key, d, B::B1, dt);
    // norms
    ref::Real n2 = (ref::Real)t.squaredWeightedNorm(), n = (ref::Real)t.weightedNorm(), in = (ref::Real)t.inner(t);
    ref::Real fro = (Hr.array() * Hr.array()).sum();
    ref::Real sc = std::max((ref::Real)1, fro);
    fail_if(false, "squaredWeightedNorm_is_frobenius", a.key, std::fabs(n2 - fro) / sc, B::B1, dt);
    fail_if(false, "inner_t_t_is_squaredWeightedNorm", a.key, std::fabs(in - n2) / sc, B::B1, dt);
    fail_if(false, "weightedNorm_is_sqrt", a.key, std::fabs(n - std::sqrt(fro)) / std::max((ref::Real)1, std::sqrt(fro)), B::B1, dt);
    if (a.theta != 0 && distinct.insert(a.key).second) ++R.nontrivial;
  }

  void pair(const lat::TAtom& a, const lat::TAtom& b) {
    std::string key = a.key + ";" + b.key;
    if (!R.want(key)) return;
    T ta = vf::make_tan<T>(a.t), tb = vf::make_tan<T>(b.t);
    ref::Vec al = vf::toL(ta.coeffs()), bl = vf::toL(tb.coeffs());
    ++R.states;
    std::string dd = "{" + vf::kv("a", vf::hexvec(ta.coeffs())) + "," + vf::kv("b", vf::hexvec(tb.coeffs()));
    ref::Mat A = g.hat(al), Bm = g.hat(bl);
    ref::Mat C = A * Bm - Bm * A;
    ref::Real resid = 0;
    ref::Vec c = g.vee(C, &resid);
    ref::Real L = a.lin * b.lin;
    T br = T::Bracket(ta, tb);
    ref::Real d = g.difft(vf::toL(br.coeffs()), c, L);
    fail_if(false, "bracket_is_commutator", key, d, B::B1, dd + "," + vf::kv("bracket", vf::decvec(br.coeffs())) + "," + vf::kv("ref", vf::decvec(c)) + "}");
    d = vf::maxabs((vf::toLM(br.hat()) - C)) / L;
    fail_if(false, "bracket_hat_is_commutator_matrix", key, d, B::B1, dd + "}");
    T mb = ta.bracket(tb);
    fail_if(!vf::bits_equal(mb.coeffs(), br.coeffs()), "bracket_member_alias", key, 0, 0.5, dd + "}");
    T rb = T::Bracket(tb, ta);
    d = g.difft(vf::toL(rb.coeffs()), ref::Vec(-vf::toL(br.coeffs())), L);
    fail_if(false, "bracket_antisymmetric", key, d, B::B1, dd + "}");
    // linearity of hat
    T sum = ta + tb;
    d = vf::maxabs((vf::toLM(sum.hat()) - (vf::toLM(ta.hat()) + vf::toLM(tb.hat())))) / std::max(a.lin, b.lin);
    fail_if(false, "hat_additive", key, d, B::B1, dd + "}");
    // inner product
    ref::Real in = (ref::Real)ta.inner(tb), fro = (A.array() * Bm.array()).sum();
    ref::Real sc = std::max((ref::Real)1, (A.cwiseAbs().array() * Bm.cwiseAbs().array()).sum());
    fail_if(false, "inner_is_frobenius", key, std::fabs(in - fro) / sc, B::B1, dd + "," + vf::kv("inner", vf::jnum(in)) + "," + vf::kv("frobenius", vf::jnum(fro)) + "}");
    ref::Real in2 = (ref::Real)tb.inner(ta);
    fail_if(false, "inner_symmetric", key, std::fabs(in - in2) / sc, B::B1, dd + "}");
    if (a.theta != 0 && b.theta != 0 && distinct.insert(key).second) ++R.nontrivial;
  }

  void triple(const lat::TAtom& a, const lat::TAtom& b, const lat::TAtom& c) {
    std::string key = a.key + ";" + b.key + ";" + c.key;
    if (!R.want(key)) return;
    T ta = vf::make_tan<T>(a.t), tb = vf::make_tan<T>(b.t), tc = vf::make_tan<T>(c.t);
    ++R.states;
    T j = T::Bracket(ta, T::Bracket(tb, tc)) + T::Bracket(tb, T::Bracket(tc, ta)) + T::Bracket(tc, T::Bracket(ta, tb));
    ref::Real L = a.lin * b.lin * c.lin;
    ref::Real d = g.difft(vf::toL(j.coeffs()), ref::Vec::Zero(g.DoF), L);
    fail_if(false, "jacobi_identity", key, d, 4 * B::B1, "{" + vf::kv("a", vf::hexvec(ta.coeffs())) + "," + vf::kv("b", vf::hexvec(tb.coeffs())) + "," + vf::kv("c", vf::hexvec(tc.coeffs())) + "}");
  }

  void run() {
    std::vector<lat::TAtom> full = lat::tangents(g, cfg, lat::FULL);
    std::vector<lat::TAtom> red = lat::tangents(g, cfg, lat::REDUCED), tiny = lat::tangents(g, cfg, lat::TINY), p1, t3;
    size_t stride = std::max<size_t>(1, red.size() / (cfg.thorough ? 400 : 100));
    for (size_t i = 0; i < red.size(); i += stride) p1.push_back(red[i]);
    for (size_t i = 0; i < tiny.size(); i += std::max<size_t>(1, tiny.size() / 8)) t3.push_back(tiny[i]);
    R.product_size = g.DoF + 7 + (long)full.size() + (long)p1.size() * tiny.size() + (long)t3.size() * t3.size() * t3.size();
    generators();
    for (size_t i = 0; i < full.size(); ++i) {
      if (!R.mine()) continue;
      if (!R.want(full[i].key)) continue;
      unary(full[i]);
      if (i == full.size() / 2) R.sample("{" + vf::kv("cell", vf::q("hat,vee,norms/" + full[i].key)) + "," + vf::kv("t", vf::decvec(full[i].t)) + "}");
    }
    for (size_t i = 0; i < p1.size(); ++i)
      for (size_t j = 0; j < tiny.size(); ++j)
        if (R.mine()) pair(p1[i], tiny[j]);
    for (size_t i = 0; i < t3.size(); ++i)
      for (size_t j = 0; j < t3.size(); ++j)
        for (size_t k = 0; k < t3.size(); ++k)
          if (R.mine()) triple(t3[i], t3[j], t3[k]);
  }
};

template <class G> void run_c07(vf::Report& R) { C07<G> c(R); c.run(); }
VF_MAIN("C07", run_c07)
