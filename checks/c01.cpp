// C01 — compose / inverse / identity / act realise the matrix group (floating part).
// Pairs (X,Y) from the element lattices, points from a table; oracle = RefAlg embedding M(.) and
// plain matrix products / LU inverse.
#include "harness.hpp"

#ifdef VF_FN_ALL
#define ON(k) 1
#else
#define ON(k) (VF_FN == (k))
#endif

template <class G> struct TransformCheck {
  static void run(const G& X, const ref::Mat& Mx, vf::Report& R, const std::string& key, const std::string& detail) {
#if ON(2)
    typedef vf::Bars<typename G::Scalar> B;
    const ref::Group& g = vf::RG<G>();
    ref::Mat T = vf::toLM(X.transform());
    // documented homogeneous matrix: block diagonal of the elements' matrices, a pure rotation being padded with a trailing 1
    int n = 0;
    for (size_t b = 0; b < g.blocks.size(); ++b) n += g.blocks[b].N + ((g.blocks[b].kind == ref::SO2 || g.blocks[b].kind == ref::SO3) ? 1 : 0);
    ref::Mat E = ref::Mat::Zero(n, n);
    int o = 0;
    for (size_t b = 0; b < g.blocks.size(); ++b) {
      int m = g.blocks[b].N;
      E.block(o, o, m, m) = Mx.block(g.offN[b], g.offN[b], m, m);
      if (g.blocks[b].kind == ref::SO2 || g.blocks[b].kind == ref::SO3) { E(o + m, o + m) = 1; ++m; }
      o += m;
    }
    ref::Real d = (T.rows() == E.rows() && T.cols() == E.cols()) ? vf::maxabs((T - E)) / g.lin_scale_M(Mx) : 1;
    if (!(d == d)) d = INFINITY;
    if (!R.judge("transform_is_embedding", d, B::B1, key))
      R.fail("transform_is_embedding", "transform/" + key, d, B::B1, detail + "," + vf::kv("transform", vf::decmat(T)) + "," + vf::kv("documented", vf::decmat(E)) + "}");
#endif
  }
};

template <class G> void run_c01(vf::Report& R) {
  typedef typename G::Scalar S;
  typedef vf::Bars<S> B;
  typedef typename G::Vector P;
  const ref::Group& g = vf::RG<G>();
  lat::Cfg cfg = vf::make_cfg<S>(R.args);
  std::vector<lat::XAtom> xs = lat::elements(g, cfg, lat::REDUCED);
  std::vector<lat::XAtom> ys = lat::elements(g, cfg, cfg.thorough ? lat::REDUCED : lat::TINY);
  std::vector<lat::XAtom> zs = lat::elements(g, cfg, lat::TINY);
  // thin the triple table
  std::vector<lat::XAtom> z3;
  for (size_t i = 0; i < zs.size(); i += std::max<size_t>(1, zs.size() / 6)) z3.push_back(zs[i]);
  // points
  std::vector<std::pair<ref::Vec, std::string> > pts;
  {
    const int D = g.Dim;
    ref::Vec z = ref::Vec::Zero(D), e0 = z, gen = z, gen2 = z;
    e0(0) = 1;
    for (int i = 0; i < D; ++i) { gen(i) = ((i % 2) ? -0.48L : 0.36L) + 0.8L * (i % 3 == 2); gen2(i) = (i % 2 ? 1 : -1) * (0.3L + 0.1L * i); }
    pts.push_back(std::make_pair(z, "p=0")); pts.push_back(std::make_pair(e0, "p=e0")); pts.push_back(std::make_pair(gen, "p=gen"));
    pts.push_back(std::make_pair(ref::Vec(1e3L * gen), "p=1e3*gen")); pts.push_back(std::make_pair(ref::Vec(1e6L * gen2), "p=1e6*gen2"));
    for (size_t i = 0; i < pts.size(); ++i) for (int k = 0; k < D; ++k) pts[i].first(k) = cfg.rnd(pts[i].first(k));
  }
  const ref::Mat I = ref::Mat::Identity(g.N, g.N);
  R.product_size = (long)xs.size() * (1 + (long)pts.size() + (long)ys.size()) + (long)z3.size() * z3.size() * z3.size() + 1;
  std::set<std::string> distinct;

  // Identity() is the identity matrix, exactly
  if (R.mine()) {
    G Id = G::Identity();
    ref::Real d = vf::maxabs((vf::Mof(Id) - I));
    ++R.states; ++R.transitions;
    if (!R.judge("identity_is_I", d, 1e-300L, "Identity")) R.fail("identity_is_I", "Identity", d, 0, "{" + vf::kv("coeffs", vf::decvec(Id.coeffs())) + "}");
    G Id2; Id2.setIdentity();
    if (!R.judge("setIdentity_is_I", vf::maxabs((vf::Mof(Id2) - I)), 1e-300L, "setIdentity")) R.fail("setIdentity_is_I", "setIdentity", 1, 0, "{}");
  }

  for (size_t i = 0; i < xs.size(); ++i) {
    const lat::XAtom& xa = xs[i];
    G X = vf::make_elem<G>(xa.c);
    ref::Mat Mx = vf::Mof(X);
    ref::Real linx = g.lin_scale_M(Mx);
    std::string dx = "{" + vf::kv("X", vf::hexvec(X.coeffs())) + "," + vf::kv("X_dec", vf::decvec(X.coeffs()));
    // ---- unary cells
    if (R.mine() && R.want(xa.key)) {
      ++R.states;
      if (xa.theta != 0 && distinct.insert(xa.key).second) ++R.nontrivial;
      // inverse
      G Xi = X.inverse();
      ++R.transitions;
      ref::Mat Mi = g.inv(Mx);
      ref::Real li = std::max(linx, g.lin_scale_M(Mi));
      ref::Real d = g.diffM(vf::Mof(Xi), Mi, li);
      if (!R.judge("inverse_is_matrix_inverse", d, B::B1, xa.key))
        R.fail("inverse_is_matrix_inverse", "inverse/" + xa.key, d, B::B1, dx + "," + vf::kv("inv", vf::decvec(Xi.coeffs())) + "," + vf::kv("M_ref", vf::decmat(Mi)) + "}");
      if (!R.judge("inverse_valid", vf::norm_dev(Xi), B::eps_lib, xa.key)) R.fail("inverse_valid", "inverse/" + xa.key, vf::norm_dev(Xi), B::eps_lib, dx + "}");
      // two-sided inverse, neutral identity (derived, but evaluated: different terms cancel)
      ref::Real l2 = li * 1;
      d = std::max(g.diffM(vf::Mof(X.compose(Xi)), I, l2), g.diffM(vf::Mof(Xi.compose(X)), I, l2));
      if (!R.judge("inverse_two_sided", d, 4 * B::B1, xa.key)) R.fail("inverse_two_sided", "X*Xinv/" + xa.key, d, 4 * B::B1, dx + "}");
      G Id = G::Identity();
      d = std::max(g.diffM(vf::Mof(X.compose(Id)), Mx, linx), g.diffM(vf::Mof(Id.compose(X)), Mx, linx));
      if (!R.judge("identity_neutral", d, B::B1, xa.key)) R.fail("identity_neutral", "X*I/" + xa.key, d, B::B1, dx + "}");
      TransformCheck<G>::run(X, Mx, R, xa.key, dx);
      R.transitions += 5;
      if (i == 0 || i == xs.size() / 2 || i + 1 == xs.size())
        R.sample("{" + vf::kv("cell", vf::q("inverse/" + xa.key)) + "," + vf::kv("X", vf::decvec(X.coeffs())) + "," + vf::kv("Xinv", vf::decvec(Xi.coeffs())) + "}");
    }
    // ---- act
    for (size_t k = 0; k < pts.size(); ++k) {
      if (!R.mine()) continue;
      std::string key = xa.key + "," + pts[k].second;
      if (!R.want(key)) continue;
      P p = vf::fromL<P>(pts[k].first);
      ref::Vec pl = vf::toL(p);
      P r = X.act(p);
      ++R.transitions;
      ref::Vec e = g.act(Mx, pl);
      ref::Real sc = std::max((ref::Real)1, std::max(linx, vf::maxabs(pl)));
      ref::Real d = vf::maxabs((vf::toL(r) - e)) / sc;
      if (!(d == d)) d = INFINITY;
      {
        ref::Real dt = g.diff_act_terms(Mx, pl, vf::toL(r));
        if (!R.judge("act_is_matrix_action_termwise", dt, B::B1, key))
          R.fail("act_is_matrix_action_termwise", "act/" + key, dt, B::B1, dx + "," + vf::kv("p", vf::hexvec(p)) + "," + vf::kv("act", vf::decvec(r)) + "," + vf::kv("ref", vf::decvec(e)) + "}");
      }
      if (!R.judge("act_is_matrix_action", d, B::B1, key))
        R.fail("act_is_matrix_action", "act/" + key, d, B::B1, dx + "," + vf::kv("p", vf::hexvec(p)) + "," + vf::kv("act", vf::decvec(r)) + "," + vf::kv("ref", vf::decvec(e)) + "}");
    }
    // ---- pairs
    for (size_t j = 0; j < ys.size(); ++j) {
      if (!R.mine()) continue;
      const lat::XAtom& ya = ys[j];
      std::string key = xa.key + "*" + ya.key;
      if (!R.want(key)) continue;
      G Y = vf::make_elem<G>(ya.c);
      ref::Mat My = vf::Mof(Y);
      G Z = X.compose(Y);
      ++R.states; ++R.transitions;
      ref::Mat E = Mx * My;
      ref::Real lin = g.lin_scale_M(Mx.cwiseAbs() * My.cwiseAbs());
      ref::Real d = g.diffM(vf::Mof(Z), E, lin);
      std::string dd = dx + "," + vf::kv("Y", vf::hexvec(Y.coeffs())) + "," + vf::kv("Y_dec", vf::decvec(Y.coeffs()));
      {
        // term-aware residual on the affine entries (see ref.hpp): catches a dropped or mis-scaled term of one entry that is small
        // compared with the largest entry of the matrix (seed C01c: the boost term t_b*v_a of the Galilean product)
        ref::Real dt = g.diff_prod_terms(Mx, My, vf::Mof(Z));
        if (!R.judge("compose_is_matrix_product_termwise", dt, B::B1, key))
          R.fail("compose_is_matrix_product_termwise", "compose/" + key, dt, B::B1, dd + "," + vf::kv("Z", vf::decvec(Z.coeffs())) + "," + vf::kv("M_ref", vf::decmat(E)) + "}");
      }
      if (!R.judge("compose_is_matrix_product", d, B::B1, key))
        R.fail("compose_is_matrix_product", "compose/" + key, d, B::B1, dd + "," + vf::kv("Z", vf::decvec(Z.coeffs())) + "," + vf::kv("M_ref", vf::decmat(E)) + "}");
      ref::Real nd = vf::norm_dev(Z);
      if (!R.judge("compose_valid", nd, B::eps_lib, key)) R.fail("compose_valid", "compose/" + key, nd, B::eps_lib, dd + "}");
      G Z2 = X * Y;
      bool same = vf::bits_equal(Z2.coeffs(), Z.coeffs());
      if (same) R.count("operator*_bit_identical");
      if (!R.judge("route_operator_mul", same ? 0 : g.diffM(vf::Mof(Z2), vf::Mof(Z), lin), B::B1, key)) R.fail("route_operator_mul", "operator*/" + key, 1, B::B1, dd + "}");
      if (xa.theta != 0 && ya.theta != 0 && distinct.insert(key).second) ++R.nontrivial;
      if ((xa.hemi < 0) != (ya.hemi < 0)) R.count("mixed_hemisphere_pairs");
      // operands anywhere inside the acceptance band | |q| - 1 | < eps are valid elements: the product must still be the matrix
      // product (of the normalised rotations) and must itself be valid -- this is what exercises the renormalisation branch
      if ((i + j) % 5 == 0) {
        std::vector<char> rm = g.rot_coeff_mask();
        for (int sgn = -1; sgn <= 1; sgn += 2) {
          ref::Vec cx = vf::toL(X.coeffs()), cy = vf::toL(Y.coeffs());
          for (int q = 0; q < g.Rep; ++q) if (rm[q]) { cx(q) *= (1 + sgn * 0.9L * (ref::Real)manif::Constants<S>::eps); cy(q) *= (1 + sgn * 0.9L * (ref::Real)manif::Constants<S>::eps); }
          G Xb = vf::make_raw<G>(cx), Yb = vf::make_raw<G>(cy);
          G Zb = Xb.compose(Yb);
          ++R.transitions;
          std::string kb = key + (sgn < 0 ? ",band=-0.9eps" : ",band=+0.9eps");
          ref::Real db = g.diffM(vf::Mof(Zb), vf::Mof(Xb) * vf::Mof(Yb), lin);
          if (!R.judge("compose_is_matrix_product", db, B::B1, kb)) R.fail("compose_is_matrix_product", "compose/" + kb, db, B::B1, dd + "}");
          ref::Real nb = vf::norm_dev(Zb);
          if (!R.judge("compose_valid", nb, B::eps_lib, kb)) R.fail("compose_valid", "compose/" + kb, nb, B::eps_lib, dd + "," + vf::kv("Z", vf::hexvec(Zb.coeffs())) + "}");
          if (nb != vf::norm_dev(Z)) R.count("band_edge_operands_renormalised_or_drifted");
        }
      }
    }
  }
  // ---- associativity on triples
  for (size_t i = 0; i < z3.size(); ++i)
    for (size_t j = 0; j < z3.size(); ++j)
      for (size_t k = 0; k < z3.size(); ++k) {
        if (!R.mine()) continue;
        std::string key = "(" + z3[i].key + ")(" + z3[j].key + ")(" + z3[k].key + ")";
        if (!R.want(key)) continue;
        G X = vf::make_elem<G>(z3[i].c), Y = vf::make_elem<G>(z3[j].c), Z = vf::make_elem<G>(z3[k].c);
        ref::Mat E = vf::Mof(X) * vf::Mof(Y) * vf::Mof(Z);
        ref::Real lin = g.lin_scale_M(vf::Mof(X).cwiseAbs() * vf::Mof(Y).cwiseAbs() * vf::Mof(Z).cwiseAbs());
        ref::Real d = std::max(g.diffM(vf::Mof((X * Y) * Z), E, lin), g.diffM(vf::Mof(X * (Y * Z)), E, lin));
        R.transitions += 4; ++R.states;
        if (!R.judge("associativity", d, 2 * B::B1, key)) R.fail("associativity", "assoc/" + key, d, 2 * B::B1, "{}");
      }
}

VF_MAIN("C01", run_c01)
