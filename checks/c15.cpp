// C15 — interpolation hits its end points and SLERP follows the geodesic.
#include "harness.hpp"
#include <manif/algorithms/interpolation.h>
#include <cmath>

template <class G> struct C15 {
  typedef typename G::Scalar S;
  typedef typename G::Tangent T;
  typedef vf::Bars<S> B;
  vf::Report& R;
  const ref::Group& g;
  lat::Cfg cfg;
  C15(vf::Report& r) : R(r), g(vf::RG<G>()), cfg(vf::make_cfg<S>(r.args)) {}

  void close(ref::Real d, ref::Real bar, const char* check, const std::string& key, const std::string& detail = "{}") {
    if (!(d == d)) d = INFINITY;
    ++R.transitions;
    if (!R.judge(check, d, bar, key)) R.fail(check, std::string(check) + "/" + key, d, bar, detail);
  }
  void expect(bool ok, const char* check, const std::string& key, const std::string& detail = "{}") {
    ++R.transitions;
    if (!R.judge(check, ok ? 0 : 1, 0.5, key)) R.fail(check, std::string(check) + "/" + key, 1, 0, detail);
  }

  void run() {
    const manif::INTERP_METHOD ms[3] = {manif::INTERP_METHOD::SLERP, manif::INTERP_METHOD::CUBIC, manif::INTERP_METHOD::CNSMOOTH};
    const char* mn[3] = {"SLERP", "CUBIC", "CNSMOOTH"};
    std::vector<lat::XAtom> xa = lat::thin(lat::elements(g, cfg, lat::REDUCED, lat::PI - 1e-3L), cfg.thorough ? 200 : 40, R.args.seed);
    std::vector<lat::XAtom> xb = lat::thin(lat::elements(g, cfg, lat::TINY, lat::PI - 1e-3L), cfg.thorough ? 40 : 12, R.args.seed + 1);
    std::vector<lat::TAtom> tv = lat::tangents(g, cfg, lat::TINY, 3.0L);
    // end velocities: zero, a generic O(1) one, one with large linear part
    std::vector<T> vel; std::vector<std::string> veln;
    vel.push_back(T::Zero()); veln.push_back("v=0");
    for (size_t i = 0; i < tv.size() && vel.size() < 3; ++i) if (tv[i].theta > 0.5L && tv[i].theta < 2 && tv[i].lin <= 1) { vel.push_back(vf::make_tan<T>(tv[i].t)); veln.push_back("v=gen"); break; }
    for (size_t i = 0; i < tv.size(); ++i) if (tv[i].lin >= 1e3L && tv[i].theta > 0 && tv[i].theta < 2) { vel.push_back(vf::make_tan<T>(tv[i].t)); veln.push_back("v=1e3"); break; }
    if (vel.size() < 2) { vel.push_back(vf::make_tan<T>(tv[tv.size() / 2].t)); veln.push_back("v=mid"); }
    const S inside[8] = {S(0), std::numeric_limits<S>::epsilon(), S(1e-9), S(0.25), S(0.5), S(0.75), S(1) - std::numeric_limits<S>::epsilon() / 2, S(1)};
    const S outside[7] = {S(-1e-30), S(-1), S(1) + std::numeric_limits<S>::epsilon(), S(2), std::numeric_limits<S>::infinity(), -std::numeric_limits<S>::infinity(), std::numeric_limits<S>::quiet_NaN()};
    const char* outn[7] = {"-1e-30", "-1", "1+ulp", "2", "+inf", "-inf", "nan"};
    std::vector<lat::XAtom> gl = lat::thin(lat::elements(g, cfg, lat::TINY, lat::PI - 1e-3L), 3, 2);
    R.product_size = (long)xa.size() * (long)xb.size();
    // ---- nearly coincident end points (added after seed C15c: a "the end points coincide" shortcut keyed on |log(A^-1 B)|^2 < eps
    // returned A for every t).  B = A exp(tau) with |tau| from 1e3*eps to 4*sqrt(eps); the judgement is relative to the distance:
    // residual <= 64 ulp + B3 * |log(A^-1 B)|
    {
      const ref::Real sq = std::sqrt((ref::Real)cfg.eps);
      const ref::Real mags[4] = {1e3L * cfg.eps, sq / 4, sq * 0.9L, sq * 4};
      const char* magn[4] = {"1e3*eps", "sqrt_eps/4", "0.9*sqrt_eps", "4*sqrt_eps"};
      const S ts[3] = {S(0.5), S(0.75), S(1)};
      for (size_t i = 0; i < xa.size(); ++i) {
        if (!R.mine()) continue;
        G A = vf::make_elem<G>(xa[i].c);
        ref::Mat Ma = vf::Mof(A);
        for (int q = 0; q < 4; ++q) {
          ref::Vec tau(g.DoF);
          for (int k = 0; k < g.DoF; ++k) tau(k) = mags[q] * (0.4L + 0.15L * (k % 4)) * ((k % 2) ? -1 : 1);
          G Bq = vf::make_elem<G>(g.fromM(Ma * g.exp(tau), xa[i].hemi));
          ref::Mat Mb = vf::Mof(Bq);
          bool ok = false;
          ref::Vec rel = g.log(g.inv(Ma) * Mb, &ok);
          if (!ok) { ++R.skipped; continue; }
          ++R.states;
          ref::Real lin = std::max(std::max(g.lin_scale_M(Ma), g.lin_scale_M(Mb)), (ref::Real)1);
          ref::Real dist = g.difft(rel, ref::Vec::Zero(g.DoF), lin);
          ref::Real tol = 64 * (ref::Real)std::numeric_limits<S>::epsilon() + B::B3 * dist;
          std::string key = xa[i].key + "->A*exp(|tau|=" + magn[q] + ")";
          if (!R.want(key)) continue;
          std::string dd = "{" + vf::kv("A", vf::hexvec(A.coeffs())) + "," + vf::kv("B", vf::hexvec(Bq.coeffs())) + "," + vf::kv("distance", vf::jnum(dist));
          for (int m = 0; m < 3; ++m) {
            G m1 = manif::interpolate(A, Bq, S(1), ms[m]);
            close(g.diffM(vf::Mof(m1), Mb, lin) / tol, 1, "close_pair_interpolate_at_1_is_B", key + "," + mn[m], dd + "," + vf::kv("got", vf::hexvec(m1.coeffs())) + "}");
            G m0 = manif::interpolate(A, Bq, S(0), ms[m]);
            close(g.diffM(vf::Mof(m0), Ma, lin) / tol, 1, "close_pair_interpolate_at_0_is_A", key + "," + mn[m], dd + "}");
          }
          for (int k = 0; k < 3; ++k) {
            G mt = manif::interpolate(A, Bq, ts[k], manif::INTERP_METHOD::SLERP);
            ref::Mat E = Ma * g.exp(ref::Vec((ref::Real)ts[k] * rel));
            close(g.diffM(vf::Mof(mt), E, lin) / tol, 1, "close_pair_slerp_follows_the_geodesic", key + ",t=" + lat::fmt("%g", (double)ts[k]), dd + "," + vf::kv("got", vf::hexvec(mt.coeffs())) + "}");
          }
        }
      }
    }
    for (size_t i = 0; i < xa.size(); ++i)
      for (size_t j = 0; j < xb.size(); ++j) {
        if (!R.mine()) continue;
        std::string key = xa[i].key + "->" + xb[j].key;
        if (!R.args.replay.empty() && R.args.replay.find(key) == std::string::npos) continue;
        G A = vf::make_elem<G>(xa[i].c), Bq = vf::make_elem<G>(xb[j].c);
        ref::Mat Ma = vf::Mof(A), Mb = vf::Mof(Bq);
        bool ok = false;
        ref::Vec rel = g.log(g.inv(Ma) * Mb, &ok);
        if (!ok || g.max_rot_angle(rel) > lat::PI - 1e-6L) { ++R.skipped; R.count("relative_rotation_beyond_pi-1e-6"); continue; }
        ++R.states;
        if (xa[i].theta != 0 && xb[j].theta != 0) ++R.nontrivial;
        ref::Real lin = std::max(std::max(g.lin_scale_M(Ma), g.lin_scale_M(Mb)), g.lin_scale_t(rel));
        std::string dd = "{" + vf::kv("A", vf::hexvec(A.coeffs())) + "," + vf::kv("A_dec", vf::decvec(A.coeffs())) + "," + vf::kv("B", vf::hexvec(Bq.coeffs())) + "," + vf::kv("B_dec", vf::decvec(Bq.coeffs()));
        // ---- end points, every method, every pair of end velocities
        for (int m = 0; m < 3; ++m)
          for (size_t va = 0; va < vel.size(); ++va)
            for (size_t vb = 0; vb < vel.size(); ++vb) {
              std::string k2 = key + "," + mn[m] + "," + veln[va] + "/" + veln[vb];
              ref::Real lv = std::max(lin, std::max(g.lin_scale_t(vf::toL(vel[va].coeffs())), g.lin_scale_t(vf::toL(vel[vb].coeffs()))));
              G m0 = manif::interpolate(A, Bq, S(0), ms[m], vel[va], vel[vb]);
              G m1 = manif::interpolate(A, Bq, S(1), ms[m], vel[va], vel[vb]);
              close(g.diffM(vf::Mof(m0), Ma, lv), 4 * B::B3, "interpolate_at_0_is_A", k2, dd + "," + vf::kv("got", vf::decvec(m0.coeffs())) + "}");
              close(g.diffM(vf::Mof(m1), Mb, lv), 4 * B::B3, "interpolate_at_1_is_B", k2, dd + "," + vf::kv("got", vf::decvec(m1.coeffs())) + "}");
              close(std::max(vf::norm_dev(m0), vf::norm_dev(m1)), B::eps_lib, "interpolated_element_valid", k2);
            }
        // ---- outside [0,1] is rejected
        for (int m = 0; m < 3; ++m)
          for (int o = 0; o < 7; ++o) {
            int outcome = 0;
            try { G x = manif::interpolate(A, Bq, outside[o], ms[m]); (void)x; } catch (std::exception&) { outcome = 1; }
            expect(outcome == 1, "parameter_outside_0_1_rejected", key + "," + mn[m] + ",t=" + outn[o]);
          }
        // ---- SLERP geodesic law and equivariance at interior parameters
        for (int k = 0; k < 8; ++k) {
          S t = inside[k];
          std::string k2 = key + ",t=" + lat::fmt("%.17g", (double)t);
          G mt = manif::interpolate(A, Bq, t, manif::INTERP_METHOD::SLERP);
          G mt2 = manif::interpolate_slerp(A, Bq, t);
          expect(vf::bits_equal(mt.coeffs(), mt2.coeffs()), "interpolate_dispatches_to_interpolate_slerp", k2);
          ref::Mat E = Ma * g.exp(ref::Vec((ref::Real)t * rel));
          close(g.diffM(vf::Mof(mt), E, lin), 4 * B::B3, "slerp_is_A_exp_t_log_Ainv_B", k2, dd + "," + vf::kv("got", vf::decvec(mt.coeffs())) + "," + vf::kv("M_ref", vf::decmat(E)) + "}");
          // log(A^-1 m(t)) = t log(A^-1 B)
          T lt = A.between(mt).log();
          close(g.difft(vf::toL(lt.coeffs()), ref::Vec((ref::Real)t * rel), lin), 4 * B::B3, "log_Ainv_m_is_t_log_Ainv_B", k2);
          // left translation of both end points
          for (size_t q = 0; q < gl.size(); ++q) {
            G gg = vf::make_elem<G>(gl[q].c);
            G lhs = manif::interpolate(gg * A, gg * Bq, t, manif::INTERP_METHOD::SLERP);
            ref::Mat Mg = vf::Mof(gg);
            ref::Real l2 = std::max(lin, g.lin_scale_M(Mg.cwiseAbs() * E.cwiseAbs()));
            close(g.diffM(vf::Mof(lhs), Mg * E, l2), 8 * B::B3, "slerp_commutes_with_left_translation", k2 + ",g=" + gl[q].key);
          }
        }
        if (i == xa.size() / 2 && j == 0) R.sample("{" + vf::kv("cell", vf::q(key)) + "," + vf::kv("A", vf::decvec(A.coeffs())) + "," + vf::kv("B", vf::decvec(Bq.coeffs())) + "}");
      }
  }
};

template <class G> void run_c15(vf::Report& R) { C15<G> c(R); c.run(); }
VF_MAIN("C15", run_c15)
