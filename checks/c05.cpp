// C05 — every analytic Jacobian is the true right-Jacobian.
// Oracle: central differences OF THE REFERENCE MODEL in long double (no formula shared with manif).
#include "harness.hpp"

template <class G> struct C05 {
  typedef typename G::Scalar S;
  typedef typename G::Tangent T;
  typedef typename G::Jacobian J;
  typedef typename G::Vector P;
  typedef vf::Bars<S> B;
  vf::Report& R;
  const ref::Group& g;
  lat::Cfg cfg;
  ref::Space SG, ST, SP;
  std::set<std::string> distinct;
  const ref::Real h;
  const ref::Real INSIDE;
  C05(vf::Report& r)
      : R(r), g(vf::RG<G>()), cfg(vf::make_cfg<S>(r.args)), SG(ref::Space::group(g)), ST(ref::Space::tangent(g)), SP(ref::Space::vec(g.Dim)),
        h(1e-7L), INSIDE(lat::PI - 1e-6L) {}

  template <class JM>
  void judgeJ(const char* name, const JM& Jm, const ref::Mat& Jr, const ref::Space& cod, const ref::Space& dom, ref::Real L, const std::string& key,
              const std::string& detail) {
    ref::Mat A = vf::toLM(Jm);
    ref::Real d = ref::diff_jac(A, Jr, cod.rot, dom.rot, L);
    ++R.transitions;
    if (!R.judge(name, d, B::B4, key))
      R.fail(name, std::string(name) + "/" + key, d, B::B4, detail + "," + vf::kv("J_manif", vf::decmat(A)) + "," + vf::kv("J_fd_ref", vf::decmat(Jr)) + "," + vf::kv("L", vf::jnum(L)) + "}");
  }
  template <class JA, class JB> void sameJ(const char* name, const JA& a, const JB& b, const std::string& key) {
    bool eq = vf::bits_equal(a, b);
    ++R.transitions;
    if (eq) R.count("forwarded_jacobian_bit_identical");
    ref::Real d = eq ? 0 : (ref::Real)vf::maxabs((a - b)) / std::max((ref::Real)1, (ref::Real)vf::maxabs(b));
    if (!(d == d)) d = INFINITY;
    if (!R.judge(name, d, B::B1, key)) R.fail(name, std::string(name) + "/" + key, d, B::B1, "{" + vf::kv("got", vf::decmat(a)) + "," + vf::kv("canonical", vf::decmat(b)) + "}");
  }
  static ref::Mat col(const ref::Vec& v) { ref::Mat m(v.size(), 1); m.col(0) = v; return m; }

  void unary_element(const lat::XAtom& xa) {
    G X = vf::make_elem<G>(xa.c);
    ref::Mat Mx = vf::Mof(X);
    ref::Real L = g.lin_scale_M(Mx);
    std::string dx = "{" + vf::kv("X", vf::hexvec(X.coeffs())) + "," + vf::kv("X_dec", vf::decvec(X.coeffs()));
    ++R.states;
    // inverse
    {
      J Jm; X.inverse(Jm);
      ref::Real Li = std::max(L, g.lin_scale_M(g.inv(Mx)));
      ref::Mat Jr = ref::fd_jacobian(SG, SG, [&](const ref::Mat& M) { return g.inv(M); }, Mx, h, Li);
      judgeJ("J_inverse", Jm, Jr, SG, SG, Li, xa.key, dx);
    }
    // log
    {
      J Jm; T l = X.log(Jm);
      bool ok = false;
      ref::Vec l0 = g.log(Mx, &ok);
      if (ok && g.max_rot_angle(l0) <= INSIDE) {
        ref::Real Ll = std::max(L, g.lin_scale_t(l0));
        ref::Mat Jr = ref::fd_jacobian(SG, ST, [&](const ref::Mat& M) { return col(g.log_seeded(M, l0)); }, Mx, h, Ll);
        judgeJ("J_log", Jm, Jr, ST, SG, Ll, xa.key, dx);
      } else ++R.skipped;
    }
  }

  void unary_tangent(const lat::TAtom& a) {
    T t = vf::make_tan<T>(a.t);
    ref::Vec tl = vf::toL(t.coeffs());
    ++R.states;
    std::string dt = "{" + vf::kv("t", vf::hexvec(t.coeffs())) + "," + vf::kv("t_dec", vf::decvec(t.coeffs()));
    J Jm; t.exp(Jm);
    ref::Real L = std::max(a.lin, g.lin_scale_M(g.exp(tl)));
    ref::Mat Jr = ref::fd_jacobian(ST, SG, [&](const ref::Mat& v) { return g.exp(ref::Vec(v.col(0))); }, col(tl), h, L);
    judgeJ("J_exp", Jm, Jr, SG, ST, L, a.key, dt);
    // tangent plus / minus: +-Identity exactly
    {
      J Ja, Jb;
      T s = t; s.coeffs().reverseInPlace();
      t.plus(s, Ja, Jb);
      bool ok = Ja == J::Identity() && Jb == J::Identity();
      t.minus(s, Ja, Jb);
      ok = ok && Ja == J::Identity() && Jb == J(-J::Identity());
      T sum = t.plus(s), dif = t.minus(s);
      ok = ok && vf::bits_equal(sum.coeffs(), (t.coeffs() + s.coeffs()).eval()) && vf::bits_equal(dif.coeffs(), (t.coeffs() - s.coeffs()).eval());
      ++R.transitions;
      if (!R.judge("J_tangent_plus_minus", ok ? 0 : 1, 0.5, a.key)) R.fail("J_tangent_plus_minus", "tangent_plus_minus/" + a.key, 1, 0, dt + "}");
    }
  }

  void pair_xt(const lat::XAtom& xa, const lat::TAtom& ta) {
    std::string key = xa.key + "+" + ta.key;
    if (!R.want(key)) return;
    G X = vf::make_elem<G>(xa.c);
    T t = vf::make_tan<T>(ta.t);
    ref::Mat Mx = vf::Mof(X);
    ref::Vec tl = vf::toL(t.coeffs());
    ref::Mat Et = g.exp(tl);
    ++R.states;
    std::string dd = "{" + vf::kv("X", vf::hexvec(X.coeffs())) + "," + vf::kv("X_dec", vf::decvec(X.coeffs())) + "," + vf::kv("t", vf::hexvec(t.coeffs())) + "," + vf::kv("t_dec", vf::decvec(t.coeffs()));
    ref::Real L = std::max(std::max(g.lin_scale_M(Mx), ta.lin), std::max(g.lin_scale_M(Mx.cwiseAbs() * Et.cwiseAbs()), g.lin_scale_M(Et.cwiseAbs() * Mx.cwiseAbs())));
    J Ja, Jb, Ka, Kb;
    // rplus
    X.rplus(t, Ja, Jb);
    judgeJ("J_rplus_wrt_X", Ja, ref::fd_jacobian(SG, SG, [&](const ref::Mat& M) { return ref::Mat(M * Et); }, Mx, h, L), SG, SG, L, key, dd);
    judgeJ("J_rplus_wrt_t", Jb, ref::fd_jacobian(ST, SG, [&](const ref::Mat& v) { return ref::Mat(Mx * g.exp(ref::Vec(v.col(0)))); }, col(tl), h, L), SG, ST, L, key, dd);
    { J A1, B1; X.rplus(t, A1); X.rplus(t, {}, B1); sameJ("J_rplus_wrt_X(requested alone)", A1, Ja, key); sameJ("J_rplus_wrt_t(requested alone)", B1, Jb, key); }
    X.plus(t, Ka, Kb); sameJ("J_plus_wrt_X=rplus", Ka, Ja, key); sameJ("J_plus_wrt_t=rplus", Kb, Jb, key);
    t.rplus(X, Kb, Ka); sameJ("J_t.rplus(X)_wrt_X", Ka, Ja, key); sameJ("J_t.rplus(X)_wrt_t", Kb, Jb, key);
    // lplus
    X.lplus(t, Ja, Jb);
    judgeJ("J_lplus_wrt_X", Ja, ref::fd_jacobian(SG, SG, [&](const ref::Mat& M) { return ref::Mat(Et * M); }, Mx, h, L), SG, SG, L, key, dd);
    judgeJ("J_lplus_wrt_t", Jb, ref::fd_jacobian(ST, SG, [&](const ref::Mat& v) { return ref::Mat(g.exp(ref::Vec(v.col(0))) * Mx); }, col(tl), h, L), SG, ST, L, key, dd);
    { J A1, B1; X.lplus(t, A1); X.lplus(t, {}, B1); sameJ("J_lplus_wrt_X(requested alone)", A1, Ja, key); sameJ("J_lplus_wrt_t(requested alone)", B1, Jb, key); }
    t.lplus(X, Kb, Ka); sameJ("J_t.lplus(X)_wrt_X", Ka, Ja, key); sameJ("J_t.lplus(X)_wrt_t", Kb, Jb, key);
    t.plus(X, Kb, Ka); sameJ("J_t.plus(X)_wrt_X", Ka, Ja, key); sameJ("J_t.plus(X)_wrt_t", Kb, Jb, key);
    if (xa.theta != 0 && ta.theta != 0 && distinct.insert(key).second) ++R.nontrivial;
  }

  void pair_xy(const lat::XAtom& xa, const lat::XAtom& ya) {
    std::string key = xa.key + "-" + ya.key;
    if (!R.want(key)) return;
    G X = vf::make_elem<G>(xa.c), Y = vf::make_elem<G>(ya.c);
    ref::Mat Mx = vf::Mof(X), My = vf::Mof(Y);
    ref::Mat Mxi = g.inv(Mx), Myi = g.inv(My);
    ++R.states;
    std::string dd = "{" + vf::kv("X", vf::hexvec(X.coeffs())) + "," + vf::kv("X_dec", vf::decvec(X.coeffs())) + "," + vf::kv("Y", vf::hexvec(Y.coeffs())) + "," + vf::kv("Y_dec", vf::decvec(Y.coeffs()));
    ref::Real L = std::max(std::max(g.lin_scale_M(Mx.cwiseAbs() * My.cwiseAbs()), g.lin_scale_M(Mxi.cwiseAbs() * My.cwiseAbs())),
                           std::max(g.lin_scale_M(Myi.cwiseAbs() * Mx.cwiseAbs()), g.lin_scale_M(Mx.cwiseAbs() * Myi.cwiseAbs())));
    J Ja, Jb, Ka, Kb;
    X.compose(Y, Ja, Jb);
    judgeJ("J_compose_wrt_X", Ja, ref::fd_jacobian(SG, SG, [&](const ref::Mat& M) { return ref::Mat(M * My); }, Mx, h, L), SG, SG, L, key, dd);
    judgeJ("J_compose_wrt_Y", Jb, ref::fd_jacobian(SG, SG, [&](const ref::Mat& M) { return ref::Mat(Mx * M); }, My, h, L), SG, SG, L, key, dd);
    { J A1, B1; X.compose(Y, A1); X.compose(Y, {}, B1); sameJ("J_compose_wrt_X(requested alone)", A1, Ja, key); sameJ("J_compose_wrt_Y(requested alone)", B1, Jb, key); }
    X.between(Y, Ja, Jb);
    judgeJ("J_between_wrt_X", Ja, ref::fd_jacobian(SG, SG, [&](const ref::Mat& M) { return ref::Mat(g.inv(M) * My); }, Mx, h, L), SG, SG, L, key, dd);
    judgeJ("J_between_wrt_Y", Jb, ref::fd_jacobian(SG, SG, [&](const ref::Mat& M) { return ref::Mat(Mxi * M); }, My, h, L), SG, SG, L, key, dd);
    { J A1, B1; X.between(Y, A1); X.between(Y, {}, B1); sameJ("J_between_wrt_X(requested alone)", A1, Ja, key); sameJ("J_between_wrt_Y(requested alone)", B1, Jb, key); }
    // rminus / lminus: only inside the injectivity radius of the relative transform
    bool ok = false;
    ref::Vec r0 = g.log(Myi * Mx, &ok);
    if (ok && g.max_rot_angle(r0) <= INSIDE) {
      ref::Real Lr = std::max(L, g.lin_scale_t(r0));
      X.rminus(Y, Ja, Jb);
      judgeJ("J_rminus_wrt_X", Ja, ref::fd_jacobian(SG, ST, [&](const ref::Mat& M) { return col(g.log_seeded(Myi * M, r0)); }, Mx, h, Lr), ST, SG, Lr, key, dd);
      judgeJ("J_rminus_wrt_Y", Jb, ref::fd_jacobian(SG, ST, [&](const ref::Mat& M) { return col(g.log_seeded(g.inv(M) * Mx, r0)); }, My, h, Lr), ST, SG, Lr, key, dd);
    { J A1, B1; X.rminus(Y, A1); X.rminus(Y, {}, B1); sameJ("J_rminus_wrt_X(requested alone)", A1, Ja, key); sameJ("J_rminus_wrt_Y(requested alone)", B1, Jb, key); }
      X.minus(Y, Ka, Kb); sameJ("J_minus_wrt_X=rminus", Ka, Ja, key); sameJ("J_minus_wrt_Y=rminus", Kb, Jb, key);
      R.count("relative_rotation_inside");
    } else { ++R.skipped; R.count("relative_rotation_outside_domain"); }
    ok = false;
    ref::Vec l0 = g.log(Mx * Myi, &ok);
    if (ok && g.max_rot_angle(l0) <= INSIDE) {
      ref::Real Ll = std::max(L, g.lin_scale_t(l0));
      X.lminus(Y, Ja, Jb);
      judgeJ("J_lminus_wrt_X", Ja, ref::fd_jacobian(SG, ST, [&](const ref::Mat& M) { return col(g.log_seeded(M * Myi, l0)); }, Mx, h, Ll), ST, SG, Ll, key, dd);
      judgeJ("J_lminus_wrt_Y", Jb, ref::fd_jacobian(SG, ST, [&](const ref::Mat& M) { return col(g.log_seeded(Mx * g.inv(M), l0)); }, My, h, Ll), ST, SG, Ll, key, dd);
    { J A1, B1; X.lminus(Y, A1); X.lminus(Y, {}, B1); sameJ("J_lminus_wrt_X(requested alone)", A1, Ja, key); sameJ("J_lminus_wrt_Y(requested alone)", B1, Jb, key); }
    } else ++R.skipped;
    if (xa.theta != 0 && ya.theta != 0 && distinct.insert(key).second) ++R.nontrivial;
  }

  void act_cell(const lat::XAtom& xa, const ref::Vec& pv, const std::string& pname) {
    std::string key = xa.key + "," + pname;
    if (!R.want(key)) return;
    G X = vf::make_elem<G>(xa.c);
    ref::Mat Mx = vf::Mof(X);
    P p = vf::fromL<P>(pv);
    ref::Vec pl = vf::toL(p);
    ++R.states;
    Eigen::Matrix<S, G::Dim, G::DoF> Jm; Eigen::Matrix<S, G::Dim, G::Dim> Jv;
    X.act(p, Jm, Jv);
    ref::Real L = std::max(g.lin_scale_M(Mx), std::max((ref::Real)1, vf::maxabs(pl)));
    std::string dd = "{" + vf::kv("X", vf::hexvec(X.coeffs())) + "," + vf::kv("X_dec", vf::decvec(X.coeffs())) + "," + vf::kv("p", vf::hexvec(p));
    judgeJ("J_act_wrt_X", Jm, ref::fd_jacobian(SG, SP, [&](const ref::Mat& M) { return col(g.act(M, pl)); }, Mx, h, L), SP, SG, L, key, dd);
    judgeJ("J_act_wrt_p", Jv, ref::fd_jacobian(SP, SP, [&](const ref::Mat& v) { return col(g.act(Mx, ref::Vec(v.col(0)))); }, col(pl), h, L), SP, SP, L, key, dd);
  }

  void run() {
    const bool q = !cfg.thorough;
    const bool bundle = g.blocks.size() > 1;
    const long seed = R.args.seed;
    // unary cells: the full lattice inside the domain (thorough); quick: every k-th cell of it (k coprime to the axis lengths)
    std::vector<lat::XAtom> xfull = lat::elements(g, cfg, lat::FULL, INSIDE);
    std::vector<lat::TAtom> tfull = lat::tangents(g, cfg, lat::FULL, INSIDE);
    const long full_x = (long)xfull.size(), full_t = (long)tfull.size();
    if (q) { xfull = lat::thin(xfull, bundle ? 150 : 2500, seed); tfull = lat::thin(tfull, bundle ? 150 : 2500, seed); }
    else if (bundle) { xfull = lat::thin(xfull, 1500, seed); tfull = lat::thin(tfull, 1500, seed); }
    R.count("unary_lattice_full_size", full_x + full_t);
    // pair cells
    std::vector<lat::XAtom> xall = lat::elements(g, cfg, lat::REDUCED, INSIDE), xs, ys = lat::elements(g, cfg, lat::TINY, INSIDE);
    std::vector<lat::TAtom> ts = lat::tangents(g, cfg, lat::TINY, INSIDE), tred = lat::tangents(g, cfg, lat::REDUCED, INSIDE);
    {
      xs = lat::thin(xall, bundle ? (q ? 8 : 40) : (q ? 40 : 400), seed);
      size_t cnt = 0;
      for (size_t i = 0; i < tred.size(); ++i) if (tred[i].theta > 3.1L && (cnt++ % 3 == 0)) ts.push_back(tred[i]);
      // tangents in the cancellation zone just above the switch-overs, with O(1) and large linear parts
      for (size_t i = 0; i < tred.size(); ++i)
        if (tred[i].theta > 0 && tred[i].theta < 1e-2L && tred[i].lin >= 1 && (cnt++ % 4 == 0)) ts.push_back(tred[i]);
      if (bundle || q) { ts = lat::thin(ts, bundle ? 12 : 40, seed); ys = lat::thin(ys, bundle ? 12 : 40, seed); }
    }
    std::vector<std::pair<ref::Vec, std::string> > pts;
    {
      const int D = g.Dim;
      ref::Vec z = ref::Vec::Zero(D), gen = z;
      for (int i = 0; i < D; ++i) gen(i) = cfg.rnd(((i % 2) ? -0.48L : 0.36L) + 0.8L * (i % 3 == 2));
      pts.push_back(std::make_pair(z, "p=0")); pts.push_back(std::make_pair(gen, "p=gen")); pts.push_back(std::make_pair(ref::Vec(1e3L * gen), "p=1e3*gen"));
    }
    R.product_size = (long)xfull.size() + (long)tfull.size() + (long)xs.size() * ((long)ts.size() + (long)ys.size() + (long)pts.size());
    for (size_t i = 0; i < xfull.size(); ++i) {
      if (!R.mine()) continue;
      if (!R.want(xfull[i].key)) continue;
      unary_element(xfull[i]);
      if (xfull[i].theta != 0 && distinct.insert(xfull[i].key).second) ++R.nontrivial;
      if (i == xfull.size() / 3) R.sample("{" + vf::kv("cell", vf::q("J_inverse,J_log/" + xfull[i].key)) + "," + vf::kv("X", vf::decvec(xfull[i].c)) + "}");
    }
    for (size_t i = 0; i < tfull.size(); ++i) {
      if (!R.mine()) continue;
      if (!R.want(tfull[i].key)) continue;
      unary_tangent(tfull[i]);
      if (tfull[i].theta != 0 && distinct.insert("t:" + tfull[i].key).second) ++R.nontrivial;
      if (i == tfull.size() / 3) R.sample("{" + vf::kv("cell", vf::q("J_exp/" + tfull[i].key)) + "," + vf::kv("t", vf::decvec(tfull[i].t)) + "}");
    }
    for (size_t i = 0; i < xs.size(); ++i) {
      for (size_t j = 0; j < ts.size(); ++j) if (R.mine()) pair_xt(xs[i], ts[j]);
      for (size_t j = 0; j < ys.size(); ++j) if (R.mine()) pair_xy(xs[i], ys[j]);
      for (size_t j = 0; j < pts.size(); ++j) if (R.mine()) act_cell(xs[i], pts[j].first, pts[j].second);
    }
  }
};

template <class G> void run_c05(vf::Report& R) { C05<G> c(R); c.run(); }
VF_MAIN("C05", run_c05)
