// C04 (free functions of manif/functions.h): every function returns the canonical member's result.
// Compiled either with all entries (-DVF_FN_ALL) or with exactly one (-DVF_FN=<k>) so that an entry
// that cannot be instantiated is named individually by the driver's bisection.
#include "harness.hpp"
#include <cstdlib>

#ifdef VF_FN_ALL
#define ON(k) 1
#else
#define ON(k) (VF_FN == (k))
#endif

template <class G> struct C04F {
  typedef typename G::Scalar S;
  typedef typename G::Tangent T;
  typedef typename G::Jacobian J;
  typedef typename G::Vector P;
  typedef vf::Bars<S> B;
  vf::Report& R;
  const ref::Group& g;
  lat::Cfg cfg;
  C04F(vf::Report& r) : R(r), g(vf::RG<G>()), cfg(vf::make_cfg<S>(r.args)) {}

  template <class A, class Bm> void same(const char* fn, const Eigen::MatrixBase<A>& got, const Eigen::MatrixBase<Bm>& canon, const std::string& key) {
    bool eq = vf::bits_equal(got, canon);
    if (eq) R.count("bit_identical");
    ref::Real d = eq ? 0 : (ref::Real)vf::maxabs((got - canon)) / std::max((ref::Real)1, (ref::Real)vf::maxabs(canon));
    if (!(d == d)) d = INFINITY;
    ++R.transitions;
    if (!R.judge(std::string("free_") + fn, d, B::B1, key))
      R.fail(std::string("free_") + fn, std::string("manif::") + fn + "/" + key, d, B::B1, "{" + vf::kv("got", vf::decmat(got)) + "," + vf::kv("canonical", vf::decmat(canon)) + "}");
  }

  void run() {
    std::vector<lat::XAtom> xs = lat::elements(g, cfg, lat::TINY);
    std::vector<lat::TAtom> ts = lat::tangents(g, cfg, lat::TINY);
    size_t nx = std::min<size_t>(xs.size(), 8), nt = std::min<size_t>(ts.size(), 8);
    R.product_size = (long)(nx * nt);
    for (size_t i = 0; i < nx; ++i)
      for (size_t j = 0; j < nt; ++j) {
        if (!R.mine()) continue;
        const lat::XAtom& xa = xs[(i * xs.size()) / nx];
        const lat::XAtom& ya = xs[((j + 3) * xs.size()) / (nt + 3) % xs.size()];
        const lat::TAtom& ta = ts[(j * ts.size()) / nt];
        std::string key = xa.key + ";" + ta.key;
        if (!R.want(key)) continue;
        G X = vf::make_elem<G>(xa.c), Y = vf::make_elem<G>(ya.c);
        T t = vf::make_tan<T>(ta.t);
        P v; for (int k = 0; k < G::Dim; ++k) v(k) = S(0.25 * (k + 1) * ((k % 2) ? -1 : 1));
        ++R.states;
        if (xa.theta != 0 && ta.theta != 0) ++R.nontrivial;
        J Ja, Jb, Ka, Kb;
#if ON(1)
        same("coeffs(X)", manif::coeffs(X), X.coeffs(), key);
        same("coeffs(t)", manif::coeffs(t), t.coeffs(), key);
#endif
#if ON(2)
        { const G& Xc = X; const T& tc = t;
          bool ok = manif::data(Xc) == X.data() && manif::data(X) == X.data() && manif::data(tc) == t.data() && manif::data(t) == t.data();
          ++R.transitions;
          if (!R.judge("free_data", ok ? 0 : 1, 0.5, key)) R.fail("free_data", "manif::data/" + key, 1, 0, "{}"); }
#endif
#if ON(3)
        { G A = X, Bq = X; manif::identity(A); Bq.setIdentity(); same("identity(X)", A.coeffs(), Bq.coeffs(), key); }
#endif
#if ON(4)
        same("Identity<G>()", manif::Identity<G>().coeffs(), G::Identity().coeffs(), key);
#endif
#if ON(5)
        { T a = t, b = t; manif::zero(a); b.setZero(); same("zero(t)", a.coeffs(), b.coeffs(), key); }
#endif
#if ON(6)
        same("Zero<T>()", manif::Zero<T>().coeffs(), T::Zero().coeffs(), key);
#endif
#if ON(7)
        { G A = X, Bq = X; srand(7); manif::random(A); srand(7); Bq.setRandom(); same("random(X)", A.coeffs(), Bq.coeffs(), key); }
#endif
#if ON(8)
        { srand(11); G A = manif::Random<G>(); srand(11); G Bq = G::Random(); same("Random<G>()", A.coeffs(), Bq.coeffs(), key);
          srand(12); T a = manif::Random<T>(); srand(12); T b = T::Random(); same("Random<T>()", a.coeffs(), b.coeffs(), key); }
#endif
#if ON(9)
        { T a = t, b = t; srand(5); manif::random(a); srand(5); b.setRandom(); same("random(t)", a.coeffs(), b.coeffs(), key); }
#endif
#if ON(10)
        same("inverse(X)", manif::inverse(X).coeffs(), X.inverse().coeffs(), key);
#endif
#if ON(11)
        same("rplus(X,t)", manif::rplus(X, t).coeffs(), X.rplus(t).coeffs(), key);
#endif
#if ON(12)
        same("lplus(X,t)", manif::lplus(X, t).coeffs(), X.lplus(t).coeffs(), key);
#endif
#if ON(13)
        same("plus(X,t)", manif::plus(X, t).coeffs(), X.plus(t).coeffs(), key);
#endif
#if ON(14)
        same("rminus(X,Y)", manif::rminus(X, Y).coeffs(), X.rminus(Y).coeffs(), key);
#endif
#if ON(15)
        same("lminus(X,Y)", manif::lminus(X, Y).coeffs(), X.lminus(Y).coeffs(), key);
#endif
#if ON(16)
        same("minus(X,Y)", manif::minus(X, Y).coeffs(), X.minus(Y).coeffs(), key);
#endif
#if ON(17)
        same("lift(X)", manif::lift(X).coeffs(), X.log().coeffs(), key);
#endif
#if ON(18)
        same("log(X)", manif::log(X).coeffs(), X.log().coeffs(), key);
#endif
#if ON(19)
        same("retract(t)", manif::retract(t).coeffs(), t.exp().coeffs(), key);
#endif
#if ON(20)
        same("exp(t)", manif::exp(t).coeffs(), t.exp().coeffs(), key);
#endif
#if ON(21)
        same("compose(X,Y)", manif::compose(X, Y).coeffs(), X.compose(Y).coeffs(), key);
#endif
#if ON(22)
        same("between(X,Y)", manif::between(X, Y).coeffs(), X.between(Y).coeffs(), key);
#endif
#if ON(23)
        same("act(X,v)", manif::act(X, v), X.act(v), key);
#endif
        // ---- with Jacobian arguments
#if ON(30)
        { G a = manif::inverse(X, Ja); G b = X.inverse(Ka); same("inverse(X,J)", a.coeffs(), b.coeffs(), key); same("inverse(X,J).J", Ja, Ka, key); }
#endif
#if ON(31)
        { G a = manif::rplus(X, t, Ja, Jb); G b = X.rplus(t, Ka, Kb); same("rplus(X,t,J,J)", a.coeffs(), b.coeffs(), key); same("rplus(X,t,J,J).Ja", Ja, Ka, key); same("rplus(X,t,J,J).Jb", Jb, Kb, key); }
#endif
#if ON(32)
        { G a = manif::lplus(X, t, Ja, Jb); G b = X.lplus(t, Ka, Kb); same("lplus(X,t,J,J)", a.coeffs(), b.coeffs(), key); same("lplus(X,t,J,J).Ja", Ja, Ka, key); same("lplus(X,t,J,J).Jb", Jb, Kb, key); }
#endif
#if ON(33)
        { G a = manif::plus(X, t, Ja, Jb); G b = X.plus(t, Ka, Kb); same("plus(X,t,J,J)", a.coeffs(), b.coeffs(), key); same("plus(X,t,J,J).Ja", Ja, Ka, key); same("plus(X,t,J,J).Jb", Jb, Kb, key); }
#endif
#if ON(34)
        { T a = manif::rminus(X, Y, Ja, Jb); T b = X.rminus(Y, Ka, Kb); same("rminus(X,Y,J,J)", a.coeffs(), b.coeffs(), key); same("rminus(X,Y,J,J).Ja", Ja, Ka, key); same("rminus(X,Y,J,J).Jb", Jb, Kb, key); }
#endif
#if ON(35)
        { T a = manif::lminus(X, Y, Ja, Jb); T b = X.lminus(Y, Ka, Kb); same("lminus(X,Y,J,J)", a.coeffs(), b.coeffs(), key); same("lminus(X,Y,J,J).Ja", Ja, Ka, key); same("lminus(X,Y,J,J).Jb", Jb, Kb, key); }
#endif
#if ON(36)
        { T a = manif::minus(X, Y, Ja, Jb); T b = X.minus(Y, Ka, Kb); same("minus(X,Y,J,J)", a.coeffs(), b.coeffs(), key); same("minus(X,Y,J,J).Ja", Ja, Ka, key); same("minus(X,Y,J,J).Jb", Jb, Kb, key); }
#endif
#if ON(37)
        { T a = manif::log(X, Ja); T b = X.log(Ka); same("log(X,J)", a.coeffs(), b.coeffs(), key); same("log(X,J).J", Ja, Ka, key); }
#endif
#if ON(38)
        { G a = manif::exp(t, Ja); G b = t.exp(Ka); same("exp(t,J)", a.coeffs(), b.coeffs(), key); same("exp(t,J).J", Ja, Ka, key); }
#endif
#if ON(39)
        { G a = manif::compose(X, Y, Ja, Jb); G b = X.compose(Y, Ka, Kb); same("compose(X,Y,J,J)", a.coeffs(), b.coeffs(), key); same("compose(X,Y,J,J).Ja", Ja, Ka, key); same("compose(X,Y,J,J).Jb", Jb, Kb, key); }
#endif
#if ON(40)
        { G a = manif::between(X, Y, Ja, Jb); G b = X.between(Y, Ka, Kb); same("between(X,Y,J,J)", a.coeffs(), b.coeffs(), key); same("between(X,Y,J,J).Ja", Ja, Ka, key); same("between(X,Y,J,J).Jb", Jb, Kb, key); }
#endif
#if ON(41)
        { Eigen::Matrix<S, G::Dim, G::DoF> Am, Bm; Eigen::Matrix<S, G::Dim, G::Dim> Av, Bv;
          P a = manif::act(X, v, Am, Av); P b = X.act(v, Bm, Bv); same("act(X,v,J,J)", a, b, key); same("act(X,v,J,J).Jm", Am, Bm, key); same("act(X,v,J,J).Jv", Av, Bv, key); }
#endif
        if (i == 0 && j == 0) R.sample("{" + vf::kv("cell", vf::q(key)) + "," + vf::kv("X", vf::decvec(X.coeffs())) + "," + vf::kv("t", vf::decvec(t.coeffs())) + "}");
      }
  }
};

template <class G> void run_c04f(vf::Report& R) { C04F<G> c(R); c.run(); }
VF_MAIN("C04", run_c04f)
