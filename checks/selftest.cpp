// Self-test of the ORACLE (no manif code involved): the reference model RefAlg (engine/ref.cpp) is compared with independently
// hand-written closed forms in long double (Rodrigues, V, the SGal3 E block), with its own defining identities, and the
// harness plumbing (NaN handling of the residual helpers and of Report::judge) is exercised.  A failure here means the
// machinery is broken; it is reported as a violation of the property whose check hosts this unit so that it cannot go unnoticed.
#include "adapt.hpp"
#include "report.hpp"
#include <cmath>

#ifndef VF_PROP
#define VF_PROP "C02"
#endif

using ref::Real; using ref::Mat; using ref::Vec;

static Mat skew3(Real x, Real y, Real z) { Mat K = Mat::Zero(3, 3); K(0, 1) = -z; K(0, 2) = y; K(1, 0) = z; K(1, 2) = -x; K(2, 0) = -y; K(2, 1) = x; return K; }

struct Self {
  vf::Report& R;
  explicit Self(vf::Report& r) : R(r) {}
  void close(Real d, Real bar, const char* check, const std::string& key) {
    ++R.states; ++R.transitions; ++R.nontrivial;
    if (!R.judge(check, d, bar, key)) R.fail(check, key, d, bar, "{}");
  }
  static Real mx(const Mat& A) { Real m = 0; for (int i = 0; i < A.rows(); ++i) for (int j = 0; j < A.cols(); ++j) { Real x = std::fabs(A(i, j)); if (!(x == x)) return INFINITY; if (x > m) m = x; } return m; }

  // closed-form exponential written from the textbook formulas, per group kind; tangent ordering = documented ordering
  static Mat closed_exp(ref::Kind k, const Vec& t) {
    const Real PI = 3.14159265358979323846264338327950288L; (void)PI;
    if (k == ref::SO2) { Mat M(2, 2); M(0, 0) = cosl(t(0)); M(0, 1) = -sinl(t(0)); M(1, 0) = sinl(t(0)); M(1, 1) = cosl(t(0)); return M; }
    if (k == ref::SE2) {
      Real th = t(2), s = sinl(th), c = cosl(th);
      Real A = s / th, B = (1 - c) / th;
      Mat M = Mat::Identity(3, 3); M(0, 0) = c; M(0, 1) = -s; M(1, 0) = s; M(1, 1) = c;
      M(0, 2) = A * t(0) - B * t(1); M(1, 2) = B * t(0) + A * t(1);
      return M;
    }
    // 3-D kinds
    int ro = (k == ref::SO3) ? 0 : (k == ref::SGAL3 ? 6 : 3);
    Real x = t(ro), y = t(ro + 1), z = t(ro + 2), th = sqrtl(x * x + y * y + z * z);
    Mat K = skew3(x, y, z), K2 = K * K, I = Mat::Identity(3, 3);
    Real s = sinl(th), c = cosl(th);
    Mat Rm = I + (s / th) * K + ((1 - c) / (th * th)) * K2;
    Mat V = I + ((1 - c) / (th * th)) * K + ((th - s) / (th * th * th)) * K2;
    if (k == ref::SO3) return Rm;
    if (k == ref::SE3) { Mat M = Mat::Identity(4, 4); M.topLeftCorner(3, 3) = Rm; M.block(0, 3, 3, 1) = V * t.segment(0, 3); return M; }
    if (k == ref::SE23) { Mat M = Mat::Identity(5, 5); M.topLeftCorner(3, 3) = Rm; M.block(0, 3, 3, 1) = V * t.segment(0, 3); M.block(0, 4, 3, 1) = V * t.segment(6, 3); return M; }
    // SGal3: tangent (rho, nu, theta, iota); matrix [[R, v, p], [0, 1, iota], [0, 0, 1]]
    Mat E = 0.5L * I + ((th - s) / (th * th * th)) * K + ((c - 1 + th * th / 2) / (th * th * th * th)) * K2;
    Mat M = Mat::Identity(5, 5); M.topLeftCorner(3, 3) = Rm; M.block(0, 3, 3, 1) = V * t.segment(3, 3);
    M.block(0, 4, 3, 1) = V * t.segment(0, 3) + t(9) * (E * t.segment(3, 3)); M(3, 4) = t(9);
    return M;
  }

  void group(const ref::Group& g, const std::string& name) {
    const int D = g.DoF;
    const Real thetas[] = {0.05L, 0.3L, 1.0L, 2.5L, 3.1L};
    const Real lins[] = {0.0L, 1.0L, 1000.0L, 1.0e6L};
    // (1) structure: generators are linearly independent, hat/vee are inverse, ad matches the commutator, Jacobi, inner weights
    {
      Vec a(D), b(D), c(D);
      for (int i = 0; i < D; ++i) { a(i) = 0.3L + 0.1L * i; b(i) = -0.7L + 0.23L * i; c(i) = 0.11L * (i + 1) * ((i % 2) ? -1 : 1); }
      Real resid = 0; Vec back = g.vee(g.hat(a), &resid);
      close(g.difft(back, a, 1) + resid, 1e-17L, "oracle_vee_of_hat_is_identity", name);
      Mat Ha = g.hat(a), Hb = g.hat(b), Hc = g.hat(c);
      Real r2 = 0; Vec br = g.vee(Ha * Hb - Hb * Ha, &r2);
      close(r2, 1e-17L, "oracle_algebra_is_closed_under_bracket", name);
      close(mx(g.ad(a) * b - br), 1e-17L, "oracle_ad_is_the_commutator", name);
      Mat Jac = (Ha * (Hb * Hc - Hc * Hb) - (Hb * Hc - Hc * Hb) * Ha) + (Hb * (Hc * Ha - Ha * Hc) - (Hc * Ha - Ha * Hc) * Hb) + (Hc * (Ha * Hb - Hb * Ha) - (Ha * Hb - Hb * Ha) * Hc);
      close(mx(Jac), 1e-16L, "oracle_jacobi_identity", name);
      Mat W = g.innerW();
      Real fro = (Ha.transpose() * Hb).trace();
      close(std::fabs((a.transpose() * W * b)(0, 0) - fro), 1e-16L, "oracle_inner_weights_are_frobenius", name);
    }
    // (2) exp against the closed forms, log/exp round trips, inverse, adjoint, Jr
    for (size_t ti = 0; ti < sizeof thetas / sizeof thetas[0]; ++ti)
      for (size_t li = 0; li < sizeof lins / sizeof lins[0]; ++li) {
        Vec t = Vec::Zero(D);
        std::string key = name + ",th=" + std::to_string((double)thetas[ti]) + ",lin=" + std::to_string((double)lins[li]);
        Mat Mclosed = Mat::Identity(g.N, g.N);
        for (size_t b = 0; b < g.blocks.size(); ++b) {
          const ref::Block& B = g.blocks[b];
          Vec tb = Vec::Zero(B.DoF);
          for (int i = 0; i < B.DoF; ++i) {
            bool rot = B.rotdim == 3 ? (i >= B.rot_t0 && i < B.rot_t0 + 3) : (B.rotdim == 2 && i == B.rot_t0);
            if (rot) { static const Real dir[3] = {0.26726124191242438468L, -0.53452248382484876937L, 0.80178372573727315405L}; tb(i) = thetas[ti] * (B.rotdim == 3 ? dir[i - B.rot_t0] : 1) * (b % 2 ? -0.5L : 1); }
            else tb(i) = lins[li] * (0.3L + 0.1L * ((i * 7 + (int)b) % 5)) * ((i % 2) ? -1 : 1);
          }
          t.segment(g.offDoF[b], B.DoF) = tb;
          Mat Mb;
          if (B.kind == ref::RN) { Mb = Mat::Identity(B.N, B.N); for (int i = 0; i < B.n; ++i) Mb(i, B.N - 1) = tb(i); }
          else if (B.kind == ref::SO2) { Mb = Mat::Identity(B.N, B.N); Mb(0, 0) = cosl(tb(0)); Mb(0, 1) = -sinl(tb(0)); Mb(1, 0) = sinl(tb(0)); Mb(1, 1) = cosl(tb(0)); }
          else Mb = closed_exp(B.kind, tb);
          Mclosed.block(g.offN[b], g.offN[b], B.N, B.N) = Mb.topLeftCorner(B.N, B.N);
        }
        Mat M = g.exp(t);
        Real L = g.lin_scale_M(M);
        close(g.diffM(M, Mclosed, L), 1e-16L, "oracle_expm_equals_closed_form", key);
        bool ok = false; Vec lg = g.log(M, &ok);
        close(ok ? g.diffM(g.exp(lg), M, L) : INFINITY, 1e-16L, "oracle_exp_of_log_is_identity", key);
        if (thetas[ti] < 3.14L) close(g.difft(lg, t, std::max(L, g.lin_scale_t(t))), 3e-15L, "oracle_log_of_exp_is_identity", key);
        Mat Mi = g.inv(M);
        close(g.diffM(M * Mi, Mat::Identity(g.N, g.N), L), 1e-16L, "oracle_inverse_is_two_sided", key);
        close(g.diffM(Mi * M, Mat::Identity(g.N, g.N), L), 1e-16L, "oracle_inverse_is_two_sided", key);
        close(g.diffM(Mi, g.exp(-t), L), 1e-16L, "oracle_inverse_is_exp_of_minus_t", key);
        // coefficient embedding round trip, both hemispheres
        for (int h = 1; h >= -1; h -= 2) close(g.diffM(g.toM(g.fromM(M, h)), M, L), 1e-16L, "oracle_embedding_round_trip", key);
        // Adj(exp t) = expm(ad t) = Jl Jr^-1
        Mat A = g.Adj(M), Ae = ref::expm(g.ad(t));
        std::vector<char> mk = g.rot_tangent_mask();
        Real Lt = std::max(L, g.lin_scale_t(t));
        // (expm of the unbalanced DoF x DoF matrix ad_t needs ~20 squarings at |linear part| = 1e6; 1e-12 is six orders below the bar B4 the Adj checks use)
        close(ref::diff_jac(A, Ae, mk, mk, Lt), 1e-12L, "oracle_Adj_of_exp_is_exp_of_ad", key);
        Mat Jr = g.Jr(t), Jl = g.Jl(t);
        close(ref::diff_prod(A, Jr, Jl, mk, mk, Lt), 1e-14L, "oracle_Adj_times_Jr_is_Jl", key);
        // Jr against central differences of the reference model itself:  log(exp(t)^-1 exp(t+d)) = Jr d + O(d^2)
        if (thetas[ti] < 3.0L) {
          ref::Space dom = ref::Space::tangent(g), cod = ref::Space::tangent(g);
          ref::Fn f = [&](const Mat& x) { Vec tt = x; bool k2 = false; Vec r = g.log(Mi * g.exp(tt), &k2); return (Mat)r; };
          Mat Jfd = ref::fd_jacobian(dom, cod, f, (Mat)t, 1e-6L, Lt);
          close(ref::diff_jac(Jfd, Jr, mk, mk, Lt), 1e-9L, "oracle_Jr_is_derivative_of_exp", key);
        }
      }
  }

  void plumbing() {
    // residual helpers and the judge must turn NaN into a failure
    Eigen::Matrix<double, 3, 3> A = Eigen::Matrix<double, 3, 3>::Zero(); A(1, 2) = std::numeric_limits<double>::quiet_NaN();
    Eigen::Matrix<float, 4, 1> Bf = Eigen::Matrix<float, 4, 1>::Zero(); Bf(3) = std::numeric_limits<float>::quiet_NaN(); Bf(0) = 2.f;
    close(std::isinf((double)vf::maxabs(A)) ? 0 : 1, 0.5L, "plumbing_maxabs_reports_nan", "double3x3");
    close(std::isinf((double)vf::maxabs(Bf)) ? 0 : 1, 0.5L, "plumbing_maxabs_reports_nan", "float4");
    close(std::isinf((double)vf::accmax(1.0, std::numeric_limits<double>::quiet_NaN())) ? 0 : 1, 0.5L, "plumbing_accmax_reports_nan", "double");
    {
      vf::Args a2 = R.args; a2.out = "";
      vf::Report T("selftest", "scratch", a2);
      bool j1 = T.judge("x", std::numeric_limits<long double>::quiet_NaN(), 1, "k"), j2 = T.judge("x", 2, 1, "k"), j3 = T.judge("x", 0.5L, 1, "k"), j4 = T.judge("x", INFINITY, 1, "k");
      close((!j1 && !j2 && j3 && !j4) ? 0 : 1, 0.5L, "plumbing_judge_rejects_nan_and_excess", "judge");
    }
    ref::Group g = ref::Group::single(ref::SE3);
    Mat M = Mat::Identity(4, 4), N2 = M; N2(0, 3) = std::numeric_limits<Real>::quiet_NaN();
    close(std::isinf((double)g.diffM(M, N2, 1)) ? 0 : 1, 0.5L, "plumbing_ref_diff_reports_nan", "diffM");
    Vec a = Vec::Zero(6), b = a; b(2) = std::numeric_limits<Real>::quiet_NaN();
    close(std::isinf((double)g.difft(a, b, 1)) ? 0 : 1, 0.5L, "plumbing_ref_diff_reports_nan", "difft");
  }

  void run() {
    group(ref::Group::single(ref::SO2), "SO2");
    group(ref::Group::single(ref::SE2), "SE2");
    group(ref::Group::single(ref::SO3), "SO3");
    group(ref::Group::single(ref::SE3), "SE3");
    group(ref::Group::single(ref::SE23), "SE_2_3");
    group(ref::Group::single(ref::SGAL3), "SGal3");
    group(ref::Group::single(ref::RN, 3), "R3");
    { std::vector<ref::Block> bs; bs.push_back(ref::make_block(ref::RN, 2)); bs.push_back(ref::make_block(ref::SO3)); bs.push_back(ref::make_block(ref::RN, 1)); group(ref::Group(bs), "Bundle_R2_SO3_R1"); }
    { std::vector<ref::Block> bs; bs.push_back(ref::make_block(ref::SE2)); bs.push_back(ref::make_block(ref::SGAL3)); bs.push_back(ref::make_block(ref::SE23)); group(ref::Group(bs), "Bundle_SE2_SGal3_SE_2_3"); }
    plumbing();
    R.product_size = R.states;
  }
};

int main(int argc, char** argv) {
  vf::Args a; a.parse(argc, argv);
  vf::Report R(VF_PROP, "oracle/selftest", a);
  Self s(R); s.run();
  R.write();
  return 0;
}
