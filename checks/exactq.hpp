// ExactQ — exact rational scalar (GMP) with which the library is instantiated where its identities must hold EXACTLY.
// Partial transcendental functions: they return the exact value where one exists (perfect squares, argument 0) and
// abort with "inexact operation" otherwise, so an exact run can never silently become approximate.
#pragma once
#include <gmpxx.h>
#include <Eigen/Core>
#include <cstdio>
#include <cstdlib>
#include <ostream>

namespace vfq {

struct Q {
  mpq_class v;
  Q() : v(0) {}
  Q(int i) : v(i) {}
  Q(long i) : v(i) {}
  Q(unsigned i) : v(i) {}
  Q(double d) : v(d) {}
  Q(const mpq_class& m) : v(m) {}
  Q(long n, long d) : v(n, d) { v.canonicalize(); }
  explicit operator double() const { return v.get_d(); }
  explicit operator int() const { return (int)v.get_d(); }
  Q& operator+=(const Q& o) { v += o.v; return *this; }
  Q& operator-=(const Q& o) { v -= o.v; return *this; }
  Q& operator*=(const Q& o) { v *= o.v; return *this; }
  Q& operator/=(const Q& o) { v /= o.v; return *this; }
};
inline Q operator+(const Q& a) { return a; }
inline Q operator-(const Q& a) { return Q(mpq_class(-a.v)); }
inline Q operator+(const Q& a, const Q& b) { return Q(mpq_class(a.v + b.v)); }
inline Q operator-(const Q& a, const Q& b) { return Q(mpq_class(a.v - b.v)); }
inline Q operator*(const Q& a, const Q& b) { return Q(mpq_class(a.v * b.v)); }
inline Q operator/(const Q& a, const Q& b) { return Q(mpq_class(a.v / b.v)); }
inline bool operator==(const Q& a, const Q& b) { return a.v == b.v; }
inline bool operator!=(const Q& a, const Q& b) { return a.v != b.v; }
inline bool operator<(const Q& a, const Q& b) { return a.v < b.v; }
inline bool operator>(const Q& a, const Q& b) { return a.v > b.v; }
inline bool operator<=(const Q& a, const Q& b) { return a.v <= b.v; }
inline bool operator>=(const Q& a, const Q& b) { return a.v >= b.v; }
inline std::ostream& operator<<(std::ostream& s, const Q& a) { return s << a.v.get_str(); }

[[noreturn]] inline void inexact(const char* what, const Q& a) {
  std::fprintf(stderr, "ExactQ: inexact operation %s(%s)\n", what, a.v.get_str().c_str());
  std::abort();
}
inline Q abs(const Q& a) { return a.v < 0 ? -a : a; }
inline Q abs2(const Q& a) { return a * a; }
inline Q sqrt(const Q& a) {
  if (a.v < 0) inexact("sqrt", a);
  mpz_class n = a.v.get_num(), d = a.v.get_den(), rn, rd;
  mpz_sqrt(rn.get_mpz_t(), n.get_mpz_t());
  mpz_sqrt(rd.get_mpz_t(), d.get_mpz_t());
  if (rn * rn != n || rd * rd != d) inexact("sqrt", a);
  mpq_class r(rn, rd); r.canonicalize();
  return Q(r);
}
inline Q sin(const Q& a) { if (a.v != 0) inexact("sin", a); return Q(0); }
inline Q cos(const Q& a) { if (a.v != 0) inexact("cos", a); return Q(1); }
inline Q tan(const Q& a) { if (a.v != 0) inexact("tan", a); return Q(0); }
inline Q atan2(const Q& y, const Q& x) { if (y.v != 0 || x.v <= 0) inexact("atan2", y); return Q(0); }
inline Q acos(const Q& a) { if (a.v != 1) inexact("acos", a); return Q(0); }
inline Q asin(const Q& a) { if (a.v != 0) inexact("asin", a); return Q(0); }
inline bool isfinite(const Q&) { return true; }
inline bool isnan(const Q&) { return false; }
inline bool isinf(const Q&) { return false; }
inline Q min(const Q& a, const Q& b) { return b < a ? b : a; }
inline Q max(const Q& a, const Q& b) { return a < b ? b : a; }

}  // namespace vfq

namespace Eigen {
template <> struct NumTraits<vfq::Q> : GenericNumTraits<vfq::Q> {
  typedef vfq::Q Real;
  typedef vfq::Q NonInteger;
  typedef vfq::Q Nested;
  typedef vfq::Q Literal;
  static inline Real epsilon() { return Real(0); }
  static inline Real dummy_precision() { return Real(0); }
  static inline int digits10() { return 0; }
  static inline Real highest() { return Real(1e300); }
  static inline Real lowest() { return Real(-1e300); }
  enum { IsComplex = 0, IsInteger = 0, IsSigned = 1, ReadCost = 10, AddCost = 50, MulCost = 100, RequireInitialization = 1 };
};
}  // namespace Eigen

// glue: the documented extension point for non-fundamental scalars (cf. manif/ceres/constants.h)
#include <manif/constants.h>
#include <manif/impl/traits.h>
namespace manif {
namespace internal {
// the trait non-fundamental scalars specialise (cf. manif/ceres/ceres.h): enables skew(Scalar) etc.
template <> struct is_ad<vfq::Q> : std::integral_constant<bool, true> {};
}  // namespace internal
template <> struct Constants<vfq::Q> {
  static const vfq::Q eps;  // > 0 so that the strict `< eps` assertions accept exact data
};
const vfq::Q Constants<vfq::Q>::eps = vfq::Q(1, 1000000000000000000L);
}  // namespace manif
