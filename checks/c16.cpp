// C16 — averages are valid, stationary and equivariant.
#include "harness.hpp"
#include <manif/algorithms/average.h>
#include <list>
#include <algorithm>
#include <unistd.h>

#ifdef VF_FN_ALL
#define ON(k) 1
#else
#define ON(k) (VF_FN == (k))
#endif

template <class G> struct C16 {
  typedef typename G::Scalar S;
  typedef typename G::Tangent T;
  typedef vf::Bars<S> B;
  vf::Report& R;
  const ref::Group& g;
  lat::Cfg cfg;
  C16(vf::Report& r) : R(r), g(vf::RG<G>()), cfg(vf::make_cfg<S>(r.args)) {}

  void close(ref::Real d, ref::Real bar, const std::string& check, const std::string& key, const std::string& detail = "{}") {
    if (!(d == d)) d = INFINITY;
    ++R.transitions;
    if (!R.judge(check, d, bar, key)) R.fail(check, check + "/" + key, d, bar, detail);
  }
  void expect(bool ok, const std::string& check, const std::string& key, const std::string& detail = "{}") {
    ++R.transitions;
    if (!R.judge(check, ok ? 0 : 1, 0.5, key)) R.fail(check, check + "/" + key, 1, 0, detail);
  }

  enum Routine { BIINV = 0, WEIGHTED = 1, FLEFT = 2, FRIGHT = 3 };
  static const char* rname(int r) { static const char* n[4] = {"average_biinvariant", "average", "average_frechet_left", "average_frechet_right"}; return n[r]; }
  static bool routine_on(int r) {
    if (r == BIINV) return ON(1);
    if (r == WEIGHTED) return ON(2);
    return ON(3);
  }
  G call(int r, const std::vector<G>& v) {
    switch (r) {
#if ON(1)
      case BIINV: return manif::average_biinvariant(v);
#endif
#if ON(2)
      case WEIGHTED: return manif::average(v);
#endif
#if ON(3)
      case FLEFT: return manif::average_frechet_left(v);
      case FRIGHT: return manif::average_frechet_right(v);
#endif
      default: return G::Identity();
    }
  }

  // deterministic offsets: a fixed table of 50 tangent directions (linear congruential), Euclidean norm scaled to <= r
  std::vector<ref::Vec> delta_table() {
    std::vector<ref::Vec> t;
    unsigned long s = 12345;
    for (int j = 0; j < 50; ++j) {
      ref::Vec d(g.DoF);
      for (int k = 0; k < g.DoF; ++k) { s = s * 6364136223846793005UL + 1442695040888963407UL; d(k) = ((ref::Real)((s >> 33) % 2000001) - 1000000) / 1000000; }
      ref::Real f = 0.3L + 0.7L * ((j * 7) % 10) / 9.0L;  // norms spread in [0.3, 1]
      d *= f / d.norm();
      t.push_back(d);
    }
    return t;
  }

  // residual of the bi-invariant mean condition at m:  (1/n) sum log(m^-1 X_i)
  ref::Vec residual(const G& m, const std::vector<G>& pts, bool* ok) {
    ref::Mat Mi = g.inv(vf::Mof(m));
    ref::Vec s = ref::Vec::Zero(g.DoF);
    *ok = true;
    for (size_t i = 0; i < pts.size(); ++i) { bool o = false; s += g.log(Mi * vf::Mof(pts[i]), &o); *ok = *ok && o; }
    return s / (ref::Real)pts.size();
  }
  ref::Real dist(const G& a, const ref::Mat& Mb, ref::Real lin) {
    bool ok = false;
    ref::Vec d = g.log(g.inv(vf::Mof(a)) * Mb, &ok);
    if (!ok) return INFINITY;
    return g.difft(d, ref::Vec::Zero(g.DoF), lin);
  }

  void run() {
    std::vector<lat::XAtom> centres = lat::thin(lat::elements(g, cfg, lat::REDUCED, 1e30L, true), cfg.thorough ? 60 : 10, R.args.seed);
    // make sure centres near the cut locus (rotation ~ pi from the identity) and with |translation| 1e3 are present
    {
      std::vector<lat::XAtom> all = lat::elements(g, cfg, lat::REDUCED, 1e30L, true);
      int added = 0;
      for (size_t i = 0; i < all.size() && added < 3; ++i) if (all[i].theta > 3.1L && all[i].lin >= (g.Dim == g.DoF && g.blocks.size() == 1 && g.blocks[0].rotdim == 0 ? 0 : 1)) { centres.push_back(all[i]); ++added; i += all.size() / 7; }
    }
    std::vector<ref::Vec> dt = delta_table();
    const ref::Real radii[5] = {0, 1e-9L, 1e-3L, 0.1L, 0.5L};
    const int sizes[6] = {1, 2, 3, 5, 10, 50};
    std::vector<lat::XAtom> gl = lat::thin(lat::elements(g, cfg, lat::TINY, 3.0L), 3, 1);
    const ref::Real sqeps = std::sqrt((ref::Real)manif::Constants<S>::eps);
    R.product_size = (long)centres.size() * 5 * 6 * 4;
    // empty container raises, for every routine
    if (R.mine())
      for (int r = 0; r < 4; ++r) {
        if (!routine_on(r)) continue;
        int outcome = 0;
        try { std::vector<G> e; G x = call(r, e); (void)x; } catch (std::exception&) { outcome = 1; }
        expect(outcome == 1, "empty_set_raises", rname(r));
        // other container type
#if ON(1)
        if (r == BIINV) { std::list<G> l; l.push_back(G::Identity()); l.push_back(G::Identity()); G x = manif::average_biinvariant(l); expect(vf::norm_dev(x) < B::eps_lib, "std_list_container", rname(r)); }
#endif
      }
    for (size_t c = 0; c < centres.size(); ++c)
      for (int ri = 0; ri < 5; ++ri)
        for (int si = 0; si < 6; ++si) {
          if (!R.mine()) continue;
          const int n = sizes[si];
          std::string key0 = "centre=" + centres[c].key + ",r=" + lat::fmt("%g", (double)radii[ri]) + ",n=" + std::to_string(n);
          if (!R.args.replay.empty() && R.args.replay.find(key0) == std::string::npos) continue;
          G C = vf::make_elem<G>(centres[c].c);
          ref::Mat Mc = vf::Mof(C);
          std::vector<G> pts;
          for (int j = 0; j < n; ++j) {
            ref::Vec d = dt[(j * 3 + c) % dt.size()] * radii[ri];
            pts.push_back(vf::make_elem<G>(g.fromM(Mc * g.exp(d), (j % 2) ? -1 : 1)));
          }
          ref::Real lin = g.lin_scale_M(Mc);
          ++R.states;
          if (radii[ri] > 0 && n > 1) ++R.nontrivial;
          for (int r = 0; r < 4; ++r) {
            if (!routine_on(r)) continue;
            std::string key = std::string(rname(r)) + "/" + key0;
            G m;
            alarm(20);
            try { m = call(r, pts); } catch (std::exception& e) { alarm(0); expect(false, "average_does_not_throw", key, "{" + vf::kv("what", vf::q(e.what())) + "}"); continue; }
            alarm(0);
            expect(vf::all_finite(m.coeffs()), "average_finite", key);
            if (!vf::all_finite(m.coeffs())) continue;
            close(vf::norm_dev(m), B::eps_lib, "average_is_valid_element", key, "{" + vf::kv("m", vf::hexvec(m.coeffs())) + "}");
            // identical points: that point
            if (radii[ri] == 0) {
              close(dist(m, Mc, lin), 4 * B::B3, "identical_points_return_that_point", key, "{" + vf::kv("m", vf::decvec(m.coeffs())) + "," + vf::kv("point", vf::decvec(C.coeffs())) + "}");
              continue;
            }
            ref::Real tol = 10 * sqeps;
            if (r != WEIGHTED) {
              bool ok = false;
              ref::Vec res = residual(m, pts, &ok);
              // the right variant measures its stopping criterion in the world frame
              ref::Real kappa = 1;
              if (r == FRIGHT) kappa = std::max((ref::Real)1, vf::maxabs(g.Adj(g.inv(vf::Mof(m)))));
              if (ok) close(g.difft(res, ref::Vec::Zero(g.DoF), lin), tol * kappa, "mean_is_stationary", key, "{" + vf::kv("m", vf::decvec(m.coeffs())) + "," + vf::kv("residual_mean_tangent", vf::decvec(res)) + "}");
              else ++R.skipped;
            }
            ref::Mat Mm = vf::Mof(m);
            // order independence (not claimed for the weighted average): all permutations for n <= 4, reversal + rotations otherwise
            if (r != WEIGHTED && n > 1) {
              std::vector<std::vector<G> > perms;
              if (n <= 4) { std::vector<int> idx(n); for (int k = 0; k < n; ++k) idx[k] = k; while (std::next_permutation(idx.begin(), idx.end())) { std::vector<G> p; for (int k = 0; k < n; ++k) p.push_back(pts[idx[k]]); perms.push_back(p); } }
              else { std::vector<G> p(pts.rbegin(), pts.rend()); perms.push_back(p); for (int s = 1; s < n; s += std::max(1, n / 4)) { std::vector<G> q(pts); std::rotate(q.begin(), q.begin() + s, q.end()); perms.push_back(q); } }
              ref::Real worst = 0;
              for (size_t p = 0; p < perms.size(); ++p) { G mp = call(r, perms[p]); worst = vf::accmax(worst, dist(mp, Mm, lin)); }
              close(worst, 2 * tol * std::max((ref::Real)1, (r == FRIGHT ? vf::maxabs(g.Adj(g.inv(Mm))) : (ref::Real)1)), "mean_independent_of_order", key);
            }
            // equivariance
            for (size_t q = 0; q < gl.size(); ++q) {
              G gg = vf::make_elem<G>(gl[q].c);
              ref::Mat Mg = vf::Mof(gg);
              std::vector<G> lp, rp;
              for (int k = 0; k < n; ++k) { lp.push_back(gg * pts[k]); rp.push_back(pts[k] * gg); }
              ref::Real l2 = g.lin_scale_M(Mg.cwiseAbs() * Mm.cwiseAbs());
              ref::Real kap = std::max((ref::Real)1, std::max(vf::maxabs(g.Adj(Mg)), vf::maxabs(g.Adj(g.inv(Mg)))));
              if (r == FRIGHT) kap *= std::max((ref::Real)1, vf::maxabs(g.Adj(g.inv(Mm))));
              G ml = call(r, lp);
              close(dist(ml, Mg * Mm, l2), 2 * tol * kap, "mean_commutes_with_left_translation", key + ",g=" + gl[q].key);
              if (r != WEIGHTED) {
                G mr = call(r, rp);
                ref::Real l3 = g.lin_scale_M(Mm.cwiseAbs() * Mg.cwiseAbs());
                close(dist(mr, Mm * Mg, l3), 2 * tol * kap, "mean_commutes_with_right_translation", key + ",g=" + gl[q].key);
              }
            }
          }
          if (c == 1 && ri == 4 && si == 3) R.sample("{" + vf::kv("cell", vf::q(key0)) + "," + vf::kv("centre", vf::decvec(C.coeffs())) + "," + vf::kv("first_point", vf::decvec(pts[0].coeffs())) + "}");
        }
  }
};

template <class G> void run_c16(vf::Report& R) { C16<G> c(R); c.run(); }
VF_MAIN("C16", run_c16)
