// C03 — log is the principal inverse of exp on every valid element.
#include "harness.hpp"

template <class G> struct C03 {
  typedef typename G::Scalar S;
  typedef typename G::Tangent T;
  typedef vf::Bars<S> B;
  vf::Report& R;
  const ref::Group& g;
  lat::Cfg cfg;
  std::set<std::string> distinct;
  C03(vf::Report& r) : R(r), g(vf::RG<G>()), cfg(vf::make_cfg<S>(r.args)) {}

  // checks on one element, however it was produced.  Returns manif's log.
  bool check_element(const G& X, const std::string& key, const std::string& how, T* out = nullptr) {
    std::string dx = "{" + vf::kv("how", vf::q(how)) + "," + vf::kv("X", vf::hexvec(X.coeffs())) + "," + vf::kv("X_dec", vf::decvec(X.coeffs()));
    ++R.states;
    T L;
    try { L = X.log(); } catch (std::exception& e) { R.judge("log_throws", 1, 0.5, key); R.fail("log_throws", "log/" + key, 1, 0, dx + "}"); return false; }
    ++R.transitions;
    if (out) *out = L;
    bool fin = vf::all_finite(L.coeffs());
    if (!R.judge("log_finite", fin ? 0 : 1, 0.5, key)) { R.fail("log_finite", "log/" + key, 1, 0, dx + "," + vf::kv("log", vf::decvec(L.coeffs())) + "}"); return false; }
    ref::Vec Ll = vf::toL(L.coeffs());
    ref::Real ang = g.max_rot_angle(Ll);
    if (!R.judge("log_angle_le_pi", ang, lat::PI * (1 + 4 * B::u), key))
      R.fail("log_angle_le_pi", "log/" + key, ang, lat::PI, dx + "," + vf::kv("log", vf::decvec(L.coeffs())) + "}");
    ref::Mat Mx = vf::Mof(X);
    ref::Mat E = g.exp(Ll);
    ref::Real lin = std::max(g.lin_scale_M(Mx), g.lin_scale_t(Ll));
    ref::Real d = g.diffM(E, Mx, lin);
    if (!R.judge("exp_of_log_is_X", d, B::B3, key))
      R.fail("exp_of_log_is_X", "log/" + key, d, B::B3, dx + "," + vf::kv("log", vf::decvec(L.coeffs())) + "," + vf::kv("expm_hat_log", vf::decmat(E)) + "," + vf::kv("M_X", vf::decmat(Mx)) + "}");
    // against the reference principal log, away from the cut locus
    bool ok = false;
    ref::Vec Lr = g.log(Mx, &ok);
    if (!ok) { R.note("reference log did not converge at " + key); ++R.skipped; }
    else if (g.max_rot_angle(Lr) < lat::PI - 1e-6L) {
      ref::Real l2 = std::max(lin, g.lin_scale_t(Lr));
      ref::Real d2 = g.difft(Ll, Lr, l2);
      if (!R.judge("log_is_principal_log", d2, B::B3, key))
        R.fail("log_is_principal_log", "log/" + key, d2, B::B3, dx + "," + vf::kv("log", vf::decvec(L.coeffs())) + "," + vf::kv("log_ref", vf::decvec(Lr)) + "}");
      R.count("judged_against_ref_log");
    } else R.count("within_1e-6_of_cut_locus");
    return true;
  }

  void run() {
    // (A) reference-built coefficient vectors, both hemispheres, full lattice
    std::vector<lat::XAtom> xs = lat::elements(g, cfg, lat::FULL);
    // (B) tangents inside the injectivity radius: t.exp().log() == t
    std::vector<lat::TAtom> ts = lat::tangents(g, cfg, lat::FULL);
    R.product_size = (long)xs.size() + (long)ts.size();
    T prevL; bool have_prev = false, cur_mine = false; std::string prev_key;
    for (size_t i = 0; i < xs.size(); ++i) {
      // hemisphere twins are adjacent in the table (h=+1 then h=-1): keep them in the same shard
      if (xs[i].hemi > 0) { cur_mine = R.mine(); have_prev = false; }
      if (!cur_mine) continue;
      const lat::XAtom& xa = xs[i];
      {
        std::string base = xa.key.substr(0, xa.key.rfind(",w"));
        if (!(R.want(base + ",w>=0") || R.want(base + ",w<0") || R.want(xa.key))) { have_prev = false; continue; }
      }
      G X = vf::make_elem<G>(xa.c);
      T L;
      bool ok = check_element(X, xa.key, "reference-built coefficients", &L);
      if (xa.theta != 0 && distinct.insert(xa.key).second) ++R.nontrivial;
      if (xa.hemi < 0) R.count("w<0_elements");
      {
        // tiny vector part with negative w: the stratum the tests never generate
        const ref::Group& gg = g;
        for (size_t b = 0; b < gg.blocks.size(); ++b)
          if (gg.blocks[b].rotdim == 3) {
            int o = gg.offRep[b] + gg.blocks[b].rot_c0;
            ref::Real v2 = xa.c(o) * xa.c(o) + xa.c(o + 1) * xa.c(o + 1) + xa.c(o + 2) * xa.c(o + 2);
            if (xa.c(o + 3) < 0 && v2 <= cfg.eps && v2 > 0) R.count("w<0_and_tiny_vector_part");
          }
      }
      if (xa.hemi > 0) { prevL = L; have_prev = ok; prev_key = xa.key; }
      else if (have_prev && ok) {
        // same transformation, opposite coefficient vector: same logarithm (away from the cut locus)
        ref::Vec a = vf::toL(prevL.coeffs()), b = vf::toL(L.coeffs());
        if (g.max_rot_angle(a) < lat::PI - 1e-6L) {
          ref::Real lin = std::max(g.lin_scale_t(a), g.lin_scale_t(b));
          ref::Real d = g.difft(a, b, lin);
          if (!R.judge("log_q_equals_log_minus_q", d, B::B3, xa.key))
            R.fail("log_q_equals_log_minus_q", "log/" + xa.key, d, B::B3,
                   "{" + vf::kv("X", vf::hexvec(X.coeffs())) + "," + vf::kv("X_dec", vf::decvec(X.coeffs())) + "," + vf::kv("log_q", vf::decvec(prevL.coeffs())) + "," + vf::kv("log_minus_q", vf::decvec(L.coeffs())) + "}");
        }
        have_prev = false;
      }
      if (i == 0 || i == xs.size() / 2 || i + 1 == xs.size())
        R.sample("{" + vf::kv("cell", vf::q("log/" + xa.key)) + "," + vf::kv("X", vf::decvec(X.coeffs())) + "," + vf::kv("log", vf::decvec(L.coeffs())) + "}");
    }
    for (size_t i = 0; i < ts.size(); ++i) {
      if (!R.mine()) continue;
      const lat::TAtom& a = ts[i];
      if (!(a.theta < lat::PI)) continue;
      if (!(R.want(a.key) || R.want("exp(" + a.key + ")"))) continue;
      T t = vf::make_tan<T>(a.t);
      G X = t.exp();
      if (!vf::all_finite(X.coeffs())) continue;  // C02's business
      T L;
      if (!check_element(X, "exp(" + a.key + ")", "manif exp of a lattice tangent", &L)) continue;
      ref::Vec tl = vf::toL(t.coeffs()), Ll = vf::toL(L.coeffs());
      ref::Real lin = std::max(a.lin, g.lin_scale_t(Ll));
      ref::Real d = g.difft(Ll, tl, lin);
      // near pi the round trip is limited by the conditioning of exp itself: |dq| ~ u  =>  |d angle| ~ 2u/(pi - theta) is NOT needed,
      // the quaternion log is well conditioned up to pi; B3 is kept uniformly.
      if (!R.judge("log_of_exp_is_t", d, B::B3, a.key))
        R.fail("log_of_exp_is_t", "exp.log/" + a.key, d, B::B3, "{" + vf::kv("t", vf::hexvec(t.coeffs())) + "," + vf::kv("t_dec", vf::decvec(t.coeffs())) + "," + vf::kv("log_exp_t", vf::decvec(L.coeffs())) + "}");
      if (a.theta != 0 && distinct.insert("t:" + a.key).second) ++R.nontrivial;
    }
    // (C) elements reachable only through composition: products of large rotations (angle 2pi - delta, w < 0)
    chains();
  }

  void chains() {
    std::vector<lat::TAtom> base = lat::tangents(g, cfg, lat::TINY);
    const ref::Real deltas[] = {1e-3L, 1e-5L, 1e-7L, 3e-8L, 1e-9L, 1e-12L, 0};
    const char* dn[] = {"1e-3", "1e-5", "1e-7", "3e-8", "1e-9", "1e-12", "0"};
    std::vector<char> mask = g.rot_tangent_mask();
    for (size_t i = 0; i < base.size(); ++i) {
      if (base[i].theta == 0) continue;
      for (int k = 0; k < 7; ++k)
        for (int variant = 0; variant < 3; ++variant) {
          ++R.product_size;
          if (!R.mine()) continue;
          std::string key = std::string(variant == 0 ? "exp(pi*u)*exp((pi-d)*u)" : (variant == 1 ? "exp((2/3)(2pi-d)*u)^3" : "exp((pi-d)u)*exp(-(pi)u)^-1")) + ",d=" + dn[k] + ",base=" + base[i].key;
          if (!R.want(key)) continue;
          // scale the rotation coordinates of the base tangent to the wanted angles, keep its linear part
          ref::Vec t1 = base[i].t, t2 = base[i].t;
          ref::Real a1, a2;
          if (variant == 0) { a1 = lat::PI; a2 = lat::PI - deltas[k]; }
          else if (variant == 1) { a1 = a2 = (2 * lat::PI - deltas[k]) / 3; }
          else { a1 = lat::PI - deltas[k]; a2 = lat::PI; }
          for (int c = 0; c < g.DoF; ++c) if (mask[c]) { t1(c) = base[i].t(c) / base[i].theta * a1; t2(c) = base[i].t(c) / base[i].theta * a2; }
          for (int c = 0; c < g.DoF; ++c) { t1(c) = cfg.rnd(t1(c)); t2(c) = cfg.rnd(t2(c)); }
          T m1 = vf::make_tan<T>(t1), m2 = vf::make_tan<T>(t2);
          G X;
          if (variant == 0) X = m1.exp() * m2.exp();
          else if (variant == 1) X = m1.exp() * m1.exp() * m1.exp();
          else X = m1.exp() * m2.exp();  // angle 2pi - d again but via different operands
          if (!vf::all_finite(X.coeffs())) continue;
          R.count("composition_chain_elements");
          check_element(X, key, "manif composition chain");
          // and the twin with the opposite coefficient sign must have the same log: covered by lattice (A)
          if (distinct.insert(key).second) ++R.nontrivial;
        }
    }
  }
};

template <class G> void run_c03(vf::Report& R) { C03<G> c(R); c.run(); }
VF_MAIN("C03", run_c03)
