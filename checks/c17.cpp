// C17 — De Casteljau curve fitting terminates, stays in bounds and interpolates.
// Exhaustive over (N, degree, k, closed) in a bounded box; each configuration runs in a forked child under
// AddressSanitizer with a CPU limit; oracle = independent integer model of the windows + reference-model geodesics.
#include "harness.hpp"
#include <manif/algorithms/decasteljau.h>
#include <sys/resource.h>
#include <sys/wait.h>
#include <unistd.h>
#include <fcntl.h>

extern "C" const char* __asan_default_options() { return "detect_leaks=0:halt_on_error=1:abort_on_error=1:allocator_may_return_null=1:max_allocation_size_mb=2048"; }

template <class G> struct C17 {
  typedef typename G::Scalar S;
  typedef typename G::Tangent T;
  typedef vf::Bars<S> B;
  vf::Report& R;
  const ref::Group& g;
  lat::Cfg cfg;
  C17(vf::Report& r) : R(r), g(vf::RG<G>()), cfg(vf::make_cfg<S>(r.args)) {}

  std::vector<G> trajectory(int N, int kind) {
    std::vector<lat::TAtom> ts = lat::tangents(g, cfg, lat::TINY, 2.0L);
    ref::Vec d1 = ts[ts.size() / 2].t, d2 = ts[ts.size() / 3].t;
    // keep steps moderate
    auto shrink = [](ref::Vec v) { ref::Real m = vf::maxabs(v); if (m > 0.4L) v *= 0.4L / m; return v; };
    d1 = shrink(d1); d2 = shrink(-d2);
    if (d1.norm() == 0) d1 = ref::Vec::Constant(g.DoF, 0.1L);
    if (d2.norm() == 0) d2 = ref::Vec::Constant(g.DoF, -0.07L);
    std::vector<G> out;
    ref::Mat M = g.exp(shrink(ts[ts.size() - 1].t));
    for (int i = 0; i < N; ++i) {
      out.push_back(vf::make_elem<G>(g.fromM(M, 1)));
      M = M * g.exp(kind == 0 ? d1 : ((i % 2) ? d2 : d1));
    }
    out.shrink_to_fit();
    return out;
  }

  // child: run one configuration, report "OK" or "FAIL <check>: <msg>" lines
  std::string child_body(int N, int d, int k, bool closed, int kind) {
    std::string out;
    std::vector<G> traj = trajectory(N, kind);
    // exact-size heap copy so that AddressSanitizer sees any read past either end
    std::vector<G> exact(traj.begin(), traj.end());
    exact.shrink_to_fit();
    bool must_throw = (N < 3) || (d > N) || (k == 0);
    std::vector<G> curve;
    try { curve = manif::decasteljau(exact, (unsigned)d, (unsigned)k, closed); }
    catch (std::exception& e) { return must_throw ? "OK rejected" : std::string("FAIL valid_configuration_accepted: threw ") + e.what(); }
    if (must_throw) return "FAIL invalid_configuration_rejected: returned " + std::to_string(curve.size()) + " points";
    // ---- independent integer model
    const int windows_open = (N - 1) / (d - 1);
    const int last_idx = windows_open * (d - 1);
    const int left_over = N - 1 - last_idx;
    const int windows = windows_open + (closed ? 1 : 0);
    const int per = (d == 2) ? k : k * d;
    if ((int)curve.size() != windows * per)
      return "FAIL curve_size_is_windows_times_points_per_window: got " + std::to_string(curve.size()) + " expected " + std::to_string(windows * per) + " (windows=" + std::to_string(windows) + ")";
    if (!(left_over < d - 1)) return "FAIL fewer_than_d-1_trailing_points_unused: model error";
    for (size_t i = 0; i < curve.size(); ++i) {
      if (!vf::all_finite(curve[i].coeffs())) return "FAIL curve_points_finite: point " + std::to_string(i);
      if (!(vf::norm_dev(curve[i]) < B::eps_lib)) return "FAIL curve_points_valid: point " + std::to_string(i);
    }
    for (int s = 0; s < windows; ++s) {
      int last_ctrl = (s < windows_open) ? s * (d - 1) + d - 1 : (d - left_over - 2);
      const G& got = curve[s * per + per - 1];
      ref::Mat E = vf::Mof(traj[last_ctrl]);
      ref::Real lin = g.lin_scale_M(E);
      ref::Real dd = g.diffM(vf::Mof(got), E, lin);
      if (!(dd <= 8 * B::B3)) return "FAIL window_ends_at_its_last_control_point: window " + std::to_string(s) + " residual " + std::to_string((double)dd);
    }
    if (d == 2) {
      // piecewise geodesic through the trajectory
      for (int s = 0; s < windows; ++s) {
        int ia = (s < windows_open) ? s : N - 1, ib = (s < windows_open) ? s + 1 : 0;
        ref::Mat A = vf::Mof(traj[ia]), Bm = vf::Mof(traj[ib]);
        bool ok = false;
        ref::Vec rel = g.log(g.inv(A) * Bm, &ok);
        if (!ok) continue;
        for (int t = 1; t <= k; ++t) {
          ref::Mat E = A * g.exp(ref::Vec(rel * ((ref::Real)t / k)));
          ref::Real dd = g.diffM(vf::Mof(curve[s * per + t - 1]), E, g.lin_scale_M(E));
          if (!(dd <= 8 * B::B3)) return "FAIL degree2_is_piecewise_geodesic: window " + std::to_string(s) + " t=" + std::to_string(t) + " residual " + std::to_string((double)dd);
        }
      }
    }
    return "OK " + std::to_string(curve.size());
  }

  void one(int N, int d, int k, bool closed, int kind) {
    std::string key = "N=" + std::to_string(N) + ",d=" + std::to_string(d) + ",k=" + std::to_string(k) + ",closed=" + (closed ? "1" : "0") + ",traj=" + std::to_string(kind);
    if (!R.want(key)) return;
    ++R.states; ++R.transitions;
    int fd[2];
    if (pipe(fd) != 0) return;
    pid_t pid = fork();
    if (pid == 0) {
      close(fd[0]);
      struct rlimit rl; rl.rlim_cur = 5; rl.rlim_max = 6; setrlimit(RLIMIT_CPU, &rl);
      alarm(20);
      int devnull = open("/dev/null", 1); if (devnull >= 0) { dup2(devnull, 2); }
      std::string res = child_body(N, d, k, closed, kind);
      ssize_t w = write(fd[1], res.data(), res.size()); (void)w;
      close(fd[1]);
      _exit(0);
    }
    close(fd[1]);
    std::string out; char buf[1024]; ssize_t n;
    while ((n = read(fd[0], buf, sizeof buf)) > 0) out.append(buf, (size_t)n);
    close(fd[0]);
    int st = 0; waitpid(pid, &st, 0);
    bool normal = WIFEXITED(st) && WEXITSTATUS(st) == 0;
    if (!normal) {
      std::string why = WIFSIGNALED(st) ? ("killed by signal " + std::to_string(WTERMSIG(st)) + (WTERMSIG(st) == SIGXCPU || WTERMSIG(st) == SIGALRM ? " (time limit)" : (WTERMSIG(st) == SIGABRT ? " (AddressSanitizer / abort)" : ""))) : ("exit status " + std::to_string(WEXITSTATUS(st)));
      R.judge("terminates_and_stays_in_bounds", 1, 0.5, key);
      R.fail("terminates_and_stays_in_bounds", "terminates_and_stays_in_bounds/" + key, 1, 0, "{" + vf::kv("child", vf::q(why)) + "}");
      return;
    }
    R.judge("terminates_and_stays_in_bounds", 0, 0.5, key);
    if (out.compare(0, 2, "OK") == 0) { R.judge("decasteljau_matches_window_model", 0, 0.5, key); if (d > 2 || closed) ++R.nontrivial; }
    else {
      std::string check = out.substr(5, out.find(':') - 5);
      R.judge(check, 1, 0.5, key);
      R.fail(check, check + "/" + key, 1, 0, "{" + vf::kv("message", vf::q(out)) + "}");
    }
    if (N == 7 && d == 3 && k == 2 && closed && kind == 0) R.sample("{" + vf::kv("cell", vf::q(key)) + "," + vf::kv("result", vf::q(out)) + "}");
  }

  // every valid configuration of the box again, but all in ONE process and in an order in which N, degree and k decrease as well as
  // increase: the fresh-process cells above cannot see a result that depends on an earlier call (seed C17c: a static scratch
  // buffer sized by the largest degree seen so far).  The same independent models judge every call.
  void history(int NMAX, int KMAX, bool closed, int kind) {
    std::string key = std::string("history(all configurations in one process, descending then ascending),closed=") + (closed ? "1" : "0") + ",traj=" + std::to_string(kind);
    if (!R.want(key)) return;
    ++R.states;
    int fd[2];
    if (pipe(fd) != 0) return;
    pid_t pid = fork();
    if (pid == 0) {
      close(fd[0]);
      struct rlimit rl; rl.rlim_cur = 120; rl.rlim_max = 125; setrlimit(RLIMIT_CPU, &rl);
      alarm(300);
      int devnull = open("/dev/null", 1); if (devnull >= 0) { dup2(devnull, 2); }
      std::string res = "OK";
      long n = 0;
      for (int pass = 0; pass < 2 && res == "OK"; ++pass)
        for (int a = 0; a <= NMAX - 3 && res == "OK"; ++a) {
          const int N = pass == 0 ? NMAX - a : 3 + a;
          for (int b = 0; b <= N - 2 && res == "OK"; ++b) {
            const int d = pass == 0 ? N - b : 2 + b;
            for (int k = KMAX; k >= 1; --k) {
              std::string r = child_body(N, d, k, closed, kind);
              ++n;
              if (r.compare(0, 2, "OK") != 0) { res = r + " [in-process history, at N=" + std::to_string(N) + ",d=" + std::to_string(d) + ",k=" + std::to_string(k) + ", call #" + std::to_string(n) + "]"; break; }
            }
          }
        }
      if (res == "OK") res = "OK " + std::to_string(n);
      ssize_t w = write(fd[1], res.data(), res.size()); (void)w;
      close(fd[1]);
      _exit(0);
    }
    close(fd[1]);
    std::string out; char buf[1024]; ssize_t n;
    while ((n = read(fd[0], buf, sizeof buf)) > 0) out.append(buf, (size_t)n);
    close(fd[0]);
    int st = 0; waitpid(pid, &st, 0);
    bool normal = WIFEXITED(st) && WEXITSTATUS(st) == 0;
    if (!normal) {
      R.judge("terminates_and_stays_in_bounds", 1, 0.5, key);
      R.fail("terminates_and_stays_in_bounds", "terminates_and_stays_in_bounds/" + key, 1, 0, "{" + vf::kv("child", vf::q(WIFSIGNALED(st) ? "killed by signal " + std::to_string(WTERMSIG(st)) : "exit status " + std::to_string(WEXITSTATUS(st)))) + "}");
      return;
    }
    if (out.compare(0, 2, "OK") == 0) { R.judge("result_independent_of_earlier_calls", 0, 0.5, key); R.transitions += atol(out.c_str() + 3); ++R.nontrivial; }
    else {
      R.judge("result_independent_of_earlier_calls", 1, 0.5, key);
      R.fail("result_independent_of_earlier_calls", "result_independent_of_earlier_calls/" + key, 1, 0, "{" + vf::kv("message", vf::q(out)) + "}");
    }
  }

  void run() {
    const int NMAX = cfg.thorough ? 16 : 10, KMAX = cfg.thorough ? 4 : 2;
    for (int kind = 0; kind < 2; ++kind) for (int closed = 0; closed < 2; ++closed) if (R.mine()) history(NMAX, KMAX, closed != 0, kind);
    long cnt = 0;
    for (int kind = 0; kind < 2; ++kind)
      for (int closed = 0; closed < 2; ++closed) {
        for (int N = 3; N <= NMAX; ++N)
          for (int d = 2; d <= N; ++d)
            for (int k = 1; k <= KMAX; ++k) { ++cnt; if (R.mine()) one(N, d, k, closed, kind); }
        // rejected configurations
        const int rej[6][3] = {{0, 2, 1}, {1, 2, 1}, {2, 2, 1}, {5, 6, 1}, {3, 4, 2}, {5, 3, 0}};
        for (int i = 0; i < 6; ++i) { ++cnt; if (R.mine()) one(rej[i][0], rej[i][1], rej[i][2], closed, kind); }
      }
    R.product_size = cnt;
  }
};

template <class G> void run_c17(vf::Report& R) { C17<G> c(R); c.run(); }
VF_MAIN("C17", run_c17)
