// C09 — optional outputs are transparent; operations are pure and deterministic.
//  (A) all 2^k subsets of the optional Jacobian outputs of every operation, incl. outputs bound to a block of a larger matrix
//  (B) purity w.r.t. hidden process-wide state: every ordered pair (quick) / triple (thorough) of calls from the operation
//      alphabet is run in a FRESH forked process (so that "first use" of every function-local static is real) and the last
//      call's result bytes are compared with the same call alone in a fresh process; operand bytes before/after each call
//  (C) aliasing: results assigned back onto an operand equal the unaliased computation, bit for bit
#include "harness.hpp"
#include <manif/algorithms/interpolation.h>
#include <manif/algorithms/average.h>
#include <manif/algorithms/decasteljau.h>
#include <sys/wait.h>
#include <unistd.h>
#include <functional>

template <class G> struct C09 {
  typedef typename G::Scalar S;
  typedef typename G::Tangent T;
  typedef typename G::Jacobian J;
  typedef typename G::Vector P;
  typedef Eigen::Matrix<S, G::Dim, G::DoF> JPm;
  typedef Eigen::Matrix<S, G::Dim, G::Dim> JPv;
  typedef vf::Bars<S> B;
  vf::Report& R;
  const ref::Group& g;
  lat::Cfg cfg;
  C09(vf::Report& r) : R(r), g(vf::RG<G>()), cfg(vf::make_cfg<S>(r.args)) {}

  static S sentinel() { return S(-7.25e33); }
  template <class M> static std::string bytes(const M& m) {
    typename M::PlainObject p = m;
    return std::string((const char*)p.data(), sizeof(typename M::Scalar) * p.size());
  }
  void expect(bool ok, const char* check, const std::string& key, const std::string& detail = "{}") {
    ++R.transitions;
    if (!R.judge(check, ok ? 0 : 1, 0.5, key)) R.fail(check, key, 1, 0, detail);
  }

  // ---- (A) subsets for an operation with two optional outputs of types JA, JB
  template <class JA, class JB, class F>
  void subsets2(const std::string& op, const std::string& key, F call) {
    typedef tl::optional<Eigen::Ref<JA> > OA;
    typedef tl::optional<Eigen::Ref<JB> > OB;
    std::string k = op + "/" + key;
    if (!R.want(k)) return;
    ++R.states;
    JA A; JB Bm; A.setConstant(sentinel()); Bm.setConstant(sentinel());
    std::string v0 = call(OA(), OB());
    std::string vF = call(OA(Eigen::Ref<JA>(A)), OB(Eigen::Ref<JB>(Bm)));
    expect(v0 == vF, "value_independent_of_requested_jacobians", k + "/subset=ab");
    expect(!(A.array() == sentinel()).any() && !(Bm.array() == sentinel()).any(), "requested_jacobian_fully_written", k + "/subset=ab");
    for (int mask = 1; mask < 3; ++mask) {
      JA A2; JB B2; A2.setConstant(sentinel()); B2.setConstant(sentinel());
      std::string v = call(mask & 1 ? OA(Eigen::Ref<JA>(A2)) : OA(), mask & 2 ? OB(Eigen::Ref<JB>(B2)) : OB());
      std::string sk = k + (mask == 1 ? "/subset=a" : "/subset=b");
      expect(v == v0, "value_independent_of_requested_jacobians", sk);
      if (mask & 1) expect(bytes(A2) == bytes(A), "jacobian_independent_of_other_requests", sk, "{" + vf::kv("alone", vf::decmat(A2)) + "," + vf::kv("with_other", vf::decmat(A)) + "}");
      else expect((A2.array() == sentinel()).all(), "unrequested_output_untouched", sk);
      if (mask & 2) expect(bytes(B2) == bytes(Bm), "jacobian_independent_of_other_requests", sk, "{" + vf::kv("alone", vf::decmat(B2)) + "," + vf::kv("with_other", vf::decmat(Bm)) + "}");
      else expect((B2.array() == sentinel()).all(), "unrequested_output_untouched", sk);
    }
    // outputs bound to blocks of larger matrices
    {
      Eigen::Matrix<S, JA::RowsAtCompileTime + 3, JA::ColsAtCompileTime + 4> bigA; bigA.setConstant(sentinel());
      Eigen::Matrix<S, JB::RowsAtCompileTime + 5, JB::ColsAtCompileTime + 2> bigB; bigB.setConstant(sentinel());
      auto ba = bigA.template block<JA::RowsAtCompileTime, JA::ColsAtCompileTime>(1, 2);
      auto bb = bigB.template block<JB::RowsAtCompileTime, JB::ColsAtCompileTime>(3, 1);
      std::string v = call(OA(Eigen::Ref<JA>(ba)), OB(Eigen::Ref<JB>(bb)));
      expect(v == v0, "value_independent_of_requested_jacobians", k + "/blocks");
      bool okA = bytes(JA(ba)) == bytes(A), okB = bytes(JB(bb)) == bytes(Bm);
      // everything outside the block must still be the sentinel
      JA fill; fill.setConstant(sentinel()); JB fillb; fillb.setConstant(sentinel());
      ba = fill; bb = fillb;
      bool outside = (bigA.array() == sentinel()).all() && (bigB.array() == sentinel()).all();
      expect(okA && okB, "block_output_equals_plain_output", k + "/blocks");
      expect(outside, "block_output_writes_exactly_the_block", k + "/blocks");
    }
  }
  template <class F> void subsets1(const std::string& op, const std::string& key, F call) {
    typedef tl::optional<Eigen::Ref<J> > OA;
    std::string k = op + "/" + key;
    if (!R.want(k)) return;
    ++R.states;
    J A; A.setConstant(sentinel());
    std::string v0 = call(OA());
    std::string v1 = call(OA(Eigen::Ref<J>(A)));
    expect(v0 == v1, "value_independent_of_requested_jacobians", k + "/subset=a");
    expect(!(A.array() == sentinel()).any(), "requested_jacobian_fully_written", k + "/subset=a");
    Eigen::Matrix<S, J::RowsAtCompileTime + 3, J::ColsAtCompileTime + 4> big; big.setConstant(sentinel());
    auto ba = big.template block<J::RowsAtCompileTime, J::ColsAtCompileTime>(2, 1);
    std::string v = call(OA(Eigen::Ref<J>(ba)));
    expect(v == v0, "value_independent_of_requested_jacobians", k + "/block");
    bool ok = bytes(J(ba)) == bytes(A);
    J fill; fill.setConstant(sentinel()); ba = fill;
    expect(ok, "block_output_equals_plain_output", k + "/block");
    expect((big.array() == sentinel()).all(), "block_output_writes_exactly_the_block", k + "/block");
  }

  void part_A(const G& X, const G& Y, const T& t, const T& s, const P& p, const std::string& key) {
    typedef tl::optional<Eigen::Ref<J> > OJ;
    subsets1("inverse", key, [&](OJ a) { return bytes(X.inverse(a).coeffs()); });
    subsets1("log", key, [&](OJ a) { return bytes(X.log(a).coeffs()); });
    subsets1("exp", key, [&](OJ a) { return bytes(t.exp(a).coeffs()); });
    subsets2<J, J>("compose", key, [&](OJ a, OJ b) { return bytes(X.compose(Y, a, b).coeffs()); });
    subsets2<J, J>("between", key, [&](OJ a, OJ b) { return bytes(X.between(Y, a, b).coeffs()); });
    subsets2<J, J>("rplus", key, [&](OJ a, OJ b) { return bytes(X.rplus(t, a, b).coeffs()); });
    subsets2<J, J>("lplus", key, [&](OJ a, OJ b) { return bytes(X.lplus(t, a, b).coeffs()); });
    subsets2<J, J>("plus", key, [&](OJ a, OJ b) { return bytes(X.plus(t, a, b).coeffs()); });
    subsets2<J, J>("rminus", key, [&](OJ a, OJ b) { return bytes(X.rminus(Y, a, b).coeffs()); });
    subsets2<J, J>("lminus", key, [&](OJ a, OJ b) { return bytes(X.lminus(Y, a, b).coeffs()); });
    subsets2<J, J>("minus", key, [&](OJ a, OJ b) { return bytes(X.minus(Y, a, b).coeffs()); });
    subsets2<J, J>("t.rplus(X)", key, [&](OJ a, OJ b) { return bytes(t.rplus(X, a, b).coeffs()); });
    subsets2<J, J>("t.lplus(X)", key, [&](OJ a, OJ b) { return bytes(t.lplus(X, a, b).coeffs()); });
    subsets2<J, J>("t.plus(X)", key, [&](OJ a, OJ b) { return bytes(t.plus(X, a, b).coeffs()); });
    subsets2<J, J>("t.plus(s)", key, [&](OJ a, OJ b) { return bytes(t.plus(s, a, b).coeffs()); });
    subsets2<J, J>("t.minus(s)", key, [&](OJ a, OJ b) { return bytes(t.minus(s, a, b).coeffs()); });
    subsets2<JPm, JPv>("act", key, [&](tl::optional<Eigen::Ref<JPm> > a, tl::optional<Eigen::Ref<JPv> > b) { return bytes(X.act(p, a, b)); });
  }

  // ---- (C) aliasing
  void part_C(const G& X, const G& Y, const T& t, const std::string& key) {
    if (!R.want("alias/" + key)) return;
    ++R.states;
    std::string k = "alias/" + key;
    { G a = X; a = a * a; expect(vf::bits_equal(a.coeffs(), (X * X).coeffs()), "X=X*X", k); }
    { G a = X; a = a.inverse(); expect(vf::bits_equal(a.coeffs(), X.inverse().coeffs()), "X=X.inverse()", k); }
    { G a = X; a = a.compose(a); expect(vf::bits_equal(a.coeffs(), X.compose(X).coeffs()), "X=X.compose(X)", k); }
    { G a = X; a *= a; expect(vf::bits_equal(a.coeffs(), (X * X).coeffs()), "X*=X", k); }
    { G a = X; a = a.between(a); expect(vf::bits_equal(a.coeffs(), X.between(X).coeffs()), "X=X.between(X)", k); }
    { G a = X; a += t; expect(vf::bits_equal(a.coeffs(), X.rplus(t).coeffs()), "X+=t", k); }
    { G a = X; a = a + a.log(); expect(vf::bits_equal(a.coeffs(), X.rplus(X.log()).coeffs()), "X=X+X.log()", k); }
    { T a = t; a += a; T e = t + t; expect(vf::bits_equal(a.coeffs(), e.coeffs()), "t+=t", k); }
    { T a = t; a = -a; T e = -t; expect(vf::bits_equal(a.coeffs(), e.coeffs()), "t=-t", k); }
    { T a = t; a = a.exp().log(); expect(vf::bits_equal(a.coeffs(), t.exp().log().coeffs()), "t=t.exp().log()", k); }
    { T a = t; a -= a; expect((a.coeffs().array() == S(0)).all() || !vf::all_finite(t.coeffs()), "t-=t", k); }
    // right-hand sides that are Eigen EXPRESSIONS reading the destination's own coefficients (a product must be evaluated before it is added)
    {
      const J M = X.adj();
      typename T::DataType prod = M * t.coeffs();
      typename T::DataType plus = t.coeffs() + prod, minus = t.coeffs() - prod;
      { T a = t; a += M * a.coeffs(); expect(vf::bits_equal(a.coeffs(), plus), "t+=M*t.coeffs()", k); }
      { T a = t; a -= M * a.coeffs(); expect(vf::bits_equal(a.coeffs(), minus), "t-=M*t.coeffs()", k); }
      { T a = t; a += a.coeffs(); typename T::DataType e2 = t.coeffs() + t.coeffs(); expect(vf::bits_equal(a.coeffs(), e2), "t+=t.coeffs()", k); }
      { T a = t; a = M * a; expect(vf::bits_equal(a.coeffs(), prod), "t=M*t", k); }
      { T tb = t; Eigen::Map<T> m(tb.data()); m += M * m.coeffs(); expect(vf::bits_equal(tb.coeffs(), plus), "MapTangent+=M*Map.coeffs()", k); }
      { T tb = t; Eigen::Map<T> m(tb.data()); m -= M * m.coeffs(); expect(vf::bits_equal(tb.coeffs(), minus), "MapTangent-=M*Map.coeffs()", k); }
      { T tb = t; Eigen::Map<T> m(tb.data()); m = M * m.coeffs(); expect(vf::bits_equal(tb.coeffs(), prod), "MapTangent=M*Map.coeffs()", k); }
      { T a = t; a = a.coeffs(); expect(vf::bits_equal(a.coeffs(), t.coeffs()), "t=t.coeffs()", k); }
      { G a = X; a = a.coeffs(); expect(vf::bits_equal(a.coeffs(), X.coeffs()), "X=X.coeffs()", k); }
      { G a = X; a = a; expect(vf::bits_equal(a.coeffs(), X.coeffs()), "X=X", k); }
    }
    {
      // a view updated in place; a view whose buffer IS the other operand's buffer
      G buf = X; Eigen::Map<G> m(buf.data());
      m += t; expect(vf::bits_equal(buf.coeffs(), X.rplus(t).coeffs()), "Map+=t", k);
      buf = X; m *= Y; expect(vf::bits_equal(buf.coeffs(), X.compose(Y).coeffs()), "Map*=Y", k);
      buf = X; Eigen::Map<const G> cm(buf.data()); m *= cm; expect(vf::bits_equal(buf.coeffs(), X.compose(X).coeffs()), "Map*=Map<const>(same buffer)", k);
      buf = X; m = cm.inverse(); expect(vf::bits_equal(buf.coeffs(), X.inverse().coeffs()), "Map=Map<const>(same buffer).inverse()", k);
      buf = X; m = m * m; expect(vf::bits_equal(buf.coeffs(), X.compose(X).coeffs()), "Map=Map*Map", k);
      T tb = t; Eigen::Map<T> tm(tb.data()); tm += tm; T e = t + t; expect(vf::bits_equal(tb.coeffs(), e.coeffs()), "MapTangent+=itself", k);
    }
    // arguments are never modified
    {
      G Xc = X, Yc = Y; T tc = t; J ja, jb;
      Xc.compose(Yc, ja, jb); Xc.rminus(Yc, ja, jb); Xc.lminus(Yc, ja, jb); Xc.rplus(tc, ja, jb); Xc.lplus(tc, ja, jb); Xc.between(Yc, ja, jb);
      Xc.inverse(ja); Xc.log(ja); tc.exp(ja); Xc.adj(); tc.rjac(); tc.ljac(); tc.rjacinv(); tc.ljacinv(); tc.smallAdj(); tc.hat(); Xc.isApprox(Yc);
      expect(vf::bits_equal(Xc.coeffs(), X.coeffs()) && vf::bits_equal(Yc.coeffs(), Y.coeffs()) && vf::bits_equal(tc.coeffs(), t.coeffs()), "arguments_unmodified", k);
    }
  }

  // ---- (B) purity across call histories in fresh processes
  struct Call { std::string name; std::function<std::string()> f; };
  std::vector<Call> calls;
  G bX, bY; T bt, bs; P bp;
  void build_calls() {
    std::vector<lat::XAtom> xs = lat::elements(g, cfg, lat::TINY);
    std::vector<lat::TAtom> ts = lat::tangents(g, cfg, lat::TINY);
    bX = vf::make_elem<G>(xs[xs.size() / 2].c); bY = vf::make_elem<G>(xs[(2 * xs.size()) / 3].c);
    bt = vf::make_tan<T>(ts[ts.size() / 2].t); bs = vf::make_tan<T>(ts[ts.size() / 3].t);
    for (int i = 0; i < G::Dim; ++i) bp(i) = S(0.3 * (i + 1));
    C09* c = this;
    auto add = [&](const std::string& n, std::function<std::string()> f) { calls.push_back(Call{n, f}); };
    add("Identity()", [] { return bytes(G::Identity().coeffs()); });
    add("setIdentity()", [] { G a; a.setIdentity(); return bytes(a.coeffs()); });
    add("Tangent::Zero()", [] { return bytes(T::Zero().coeffs()); });
    for (int i = 0; i < T::DoF; ++i) add("Generator(" + std::to_string(i) + ")", [i] { return bytes(T::Generator(i)); });
    add("InnerWeights()", [] { return bytes(T::InnerWeights()); });
    add("X.adj()", [c] { return bytes(c->bX.adj()); });
    add("t.rjac()", [c] { return bytes(c->bt.rjac()); });
    add("t.ljac()", [c] { return bytes(c->bt.ljac()); });
    add("t.rjacinv()", [c] { return bytes(c->bt.rjacinv()); });
    add("t.smallAdj()", [c] { return bytes(c->bt.smallAdj()); });
    add("t.hat()", [c] { return bytes(c->bt.hat()); });
    add("t.inner(s)", [c] { S v = c->bt.inner(c->bs); return std::string((const char*)&v, sizeof v); });
    add("t.weightedNorm()", [c] { S v = c->bt.weightedNorm(); return std::string((const char*)&v, sizeof v); });
    add("Bracket(t,s)", [c] { return bytes(T::Bracket(c->bt, c->bs).coeffs()); });
    add("X.inverse(J)", [c] { J j; std::string r = bytes(c->bX.inverse(j).coeffs()); return r + bytes(j); });
    add("X.log(J)", [c] { J j; std::string r = bytes(c->bX.log(j).coeffs()); return r + bytes(j); });
    add("t.exp(J)", [c] { J j; std::string r = bytes(c->bt.exp(j).coeffs()); return r + bytes(j); });
    add("X*Y", [c] { return bytes((c->bX * c->bY).coeffs()); });
    add("X.compose(Y,J,J)", [c] { J a, b; std::string r = bytes(c->bX.compose(c->bY, a, b).coeffs()); return r + bytes(a) + bytes(b); });
    add("X.between(Y,J,J)", [c] { J a, b; std::string r = bytes(c->bX.between(c->bY, a, b).coeffs()); return r + bytes(a) + bytes(b); });
    add("X.rplus(t,J,J)", [c] { J a, b; std::string r = bytes(c->bX.rplus(c->bt, a, b).coeffs()); return r + bytes(a) + bytes(b); });
    add("X.lplus(t,J,J)", [c] { J a, b; std::string r = bytes(c->bX.lplus(c->bt, a, b).coeffs()); return r + bytes(a) + bytes(b); });
    add("X.rminus(Y,J,J)", [c] { J a, b; std::string r = bytes(c->bX.rminus(c->bY, a, b).coeffs()); return r + bytes(a) + bytes(b); });
    add("X.lminus(Y,J,J)", [c] { J a, b; std::string r = bytes(c->bX.lminus(c->bY, a, b).coeffs()); return r + bytes(a) + bytes(b); });
    add("X.act(p,J,J)", [c] { JPm a; JPv b; std::string r = bytes(c->bX.act(c->bp, a, b)); return r + bytes(a) + bytes(b); });
    add("X.isApprox(Y)", [c] { return std::string(c->bX.isApprox(c->bY) ? "1" : "0"); });
    add("X==X", [c] { return std::string(c->bX == c->bX ? "1" : "0"); });
    add("X.cast<other>()", [c] { typedef typename std::conditional<std::is_same<S, double>::value, float, double>::type O; return bytes(c->bX.template cast<O>().coeffs()); });
    add("Random(seed 3)", [] { srand(3); return bytes(G::Random().coeffs()); });
    add("Tangent::Random(seed 3)", [] { srand(3); return bytes(T::Random().coeffs()); });
    // the algorithm layer (added after seed C09c: a function-local static bound on the first call made a later call with another
    // degree return the wrong polynomial): every method / degree is its own letter, so all ordered pairs of degrees are explored
    add("interpolate(SLERP)", [c] { return bytes(manif::interpolate(c->bX, c->bY, S(0.25), manif::INTERP_METHOD::SLERP).coeffs()); });
    add("interpolate(CUBIC)", [c] { return bytes(manif::interpolate(c->bX, c->bY, S(0.25), manif::INTERP_METHOD::CUBIC, c->bs, c->bs).coeffs()); });
    add("interpolate(CNSMOOTH)", [c] { return bytes(manif::interpolate(c->bX, c->bY, S(0.25), manif::INTERP_METHOD::CNSMOOTH, c->bs, c->bs).coeffs()); });
    for (unsigned m = 1; m <= 4; ++m) {
      add("interpolate_smooth(m=" + std::to_string(m) + ")", [c, m] { return bytes(manif::interpolate_smooth(c->bX, c->bY, S(0.25), m, c->bs, c->bs).coeffs()); });
      add("smoothing_phi(0.25," + std::to_string(m) + ")", [m] { S v = manif::smoothing_phi(S(0.25), m); return std::string((const char*)&v, sizeof v); });
    }
    add("average_biinvariant", [c] { std::vector<G> v; v.push_back(c->bX); v.push_back(c->bX + c->bs * S(0.1)); v.push_back(c->bX + c->bs * S(-0.05)); return bytes(manif::average_biinvariant(v).coeffs()); });
    add("average_frechet_left", [c] { std::vector<G> v; v.push_back(c->bX); v.push_back(c->bX + c->bs * S(0.1)); v.push_back(c->bX + c->bs * S(-0.05)); return bytes(manif::average_frechet_left(v).coeffs()); });
    add("average_frechet_right", [c] { std::vector<G> v; v.push_back(c->bX); v.push_back(c->bX + c->bs * S(0.1)); v.push_back(c->bX + c->bs * S(-0.05)); return bytes(manif::average_frechet_right(v).coeffs()); });
    add("decasteljau(4pts,d=3,k=2)", [c] { std::vector<G> v; v.push_back(c->bX); v.push_back(c->bX + c->bs * S(0.1)); v.push_back(c->bX + c->bs * S(0.2)); v.push_back(c->bX + c->bs * S(0.3));
                                          std::vector<G> r = manif::decasteljau(v, 3, 2, false); std::string o; for (size_t i = 0; i < r.size(); ++i) o += bytes(r[i].coeffs()); return o; });
    add("decasteljau(4pts,d=2,k=1,closed)", [c] { std::vector<G> v; v.push_back(c->bX); v.push_back(c->bX + c->bs * S(0.1)); v.push_back(c->bX + c->bs * S(0.2)); v.push_back(c->bX + c->bs * S(0.3));
                                          std::vector<G> r = manif::decasteljau(v, 2, 1, true); std::string o; for (size_t i = 0; i < r.size(); ++i) o += bytes(r[i].coeffs()); return o; });
  }

  // run the calls `seq` in a fresh child; returns the result bytes of the last call + a flag that operands stayed intact
  bool run_child(const std::vector<int>& seq, std::string& out) {
    int fd[2];
    if (pipe(fd) != 0) return false;
    pid_t pid = fork();
    if (pid == 0) {
      close(fd[0]);
      std::string res, operands0 = bytes(bX.coeffs()) + bytes(bY.coeffs()) + bytes(bt.coeffs()) + bytes(bs.coeffs()) + bytes(bp);
      bool intact = true;
      try {
        for (size_t i = 0; i < seq.size(); ++i) {
          res = calls[seq[i]].f();
          std::string operands1 = bytes(bX.coeffs()) + bytes(bY.coeffs()) + bytes(bt.coeffs()) + bytes(bs.coeffs()) + bytes(bp);
          if (operands1 != operands0) intact = false;
        }
      } catch (std::exception& e) { res = std::string("EXCEPTION:") + e.what(); }
      res += intact ? "|intact" : "|OPERANDS-MODIFIED";
      size_t off = 0;
      while (off < res.size()) { ssize_t w = write(fd[1], res.data() + off, res.size() - off); if (w <= 0) break; off += (size_t)w; }
      close(fd[1]);
      _exit(0);
    }
    close(fd[1]);
    out.clear();
    char buf[4096];
    ssize_t n;
    while ((n = read(fd[0], buf, sizeof buf)) > 0) out.append(buf, (size_t)n);
    close(fd[0]);
    int st = 0;
    waitpid(pid, &st, 0);
    return WIFEXITED(st) && WEXITSTATUS(st) == 0;
  }

  void part_B() {
    build_calls();
    const int n = (int)calls.size();
    R.count("purity_alphabet_size", n);
    // reference: every call alone in a fresh process (twice: the reference itself must be reproducible)
    std::vector<std::string> alone(n);
    for (int i = 0; i < n; ++i) {
      std::string a, b;
      bool ok = run_child(std::vector<int>{i}, a) && run_child(std::vector<int>{i}, b);
      ++R.states;
      expect(ok && a == b, "call_alone_reproducible_across_processes", "purity/" + calls[i].name);
      expect(a.find("OPERANDS-MODIFIED") == std::string::npos, "arguments_unmodified", "purity/" + calls[i].name);
      alone[i] = a;
    }
    // all ordered pairs (a then b): the result of b must be what b returns alone
    for (int a = 0; a < n; ++a)
      for (int b = 0; b < n; ++b) {
        if (!R.mine()) continue;
        std::string key = "purity/" + calls[a].name + ";" + calls[b].name;
        if (!R.want(key)) continue;
        std::string out;
        bool ok = run_child(std::vector<int>{a, b}, out);
        ++R.states;
        expect(ok && out == alone[b], "result_independent_of_earlier_calls", key);
        if (a != b) ++R.nontrivial;
      }
    // same call repeated in one process
    for (int a = 0; a < n; ++a) {
      if (!R.mine()) continue;
      std::string out;
      bool ok = run_child(std::vector<int>{a, a, a}, out);
      ++R.states;
      expect(ok && out == alone[a], "repeated_call_identical", "purity/" + calls[a].name + " x3");
    }
    if (cfg.thorough) {
      // triples over the static-touching subset (the first 3+DoF+1 calls) followed by every call
      int ns = std::min(n, 4 + T::DoF + 6);
      for (int a = 0; a < ns; ++a)
        for (int b = 0; b < ns; ++b)
          for (int c = 0; c < n; ++c) {
            if (!R.mine()) continue;
            std::string key = "purity/" + calls[a].name + ";" + calls[b].name + ";" + calls[c].name;
            if (!R.want(key)) continue;
            std::string out;
            bool ok = run_child(std::vector<int>{a, b, c}, out);
            ++R.states;
            expect(ok && out == alone[c], "result_independent_of_earlier_calls", key);
          }
    }
  }

  void run() {
    // IMPORTANT: nothing in this process may touch a manif function-local static before part_B forks:
    // part B runs first, inputs are built from raw coefficients only.
    part_B();
    std::vector<lat::XAtom> xs = lat::elements(g, cfg, cfg.thorough ? lat::REDUCED : lat::TINY);
    std::vector<lat::TAtom> ts = lat::tangents(g, cfg, lat::TINY);
    xs = lat::thin(xs, cfg.thorough ? 300 : 60, R.args.seed);
    ts = lat::thin(ts, cfg.thorough ? 20 : 8, R.args.seed);
    R.product_size = (long)xs.size() * (long)ts.size();
    P p; for (int i = 0; i < G::Dim; ++i) p(i) = S(0.25 * (i + 1) * ((i % 2) ? -1 : 1));
    for (size_t i = 0; i < xs.size(); ++i)
      for (size_t j = 0; j < ts.size(); ++j) {
        if (!R.mine()) continue;
        G X = vf::make_elem<G>(xs[i].c), Y = vf::make_elem<G>(xs[(i * 7 + j * 3 + 1) % xs.size()].c);
        T t = vf::make_tan<T>(ts[j].t), s = vf::make_tan<T>(ts[(j + 1) % ts.size()].t);
        std::string key = xs[i].key + ";" + ts[j].key;
        part_A(X, Y, t, s, p, key);
        part_C(X, Y, t, key);
        if (xs[i].theta != 0 && ts[j].theta != 0) ++R.nontrivial;
        if (i == 1 && j == 1) R.sample("{" + vf::kv("cell", vf::q("all operations x all output subsets/" + key)) + "," + vf::kv("X", vf::decvec(X.coeffs())) + "," + vf::kv("t", vf::decvec(t.coeffs())) + "}");
      }
    R.sample("{" + vf::kv("cell", vf::q("purity/" + calls[0].name + ";" + calls[calls.size() - 1].name)) + "," + vf::kv("note", vf::q("two calls in a fresh forked process; last result compared bytewise with the same call alone in a fresh process")) + "}");
  }
};

template <class G> void run_c09(vf::Report& R) { C09<G> c(R); c.run(); }
VF_MAIN("C09", run_c09)
