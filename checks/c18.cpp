// C18 — approximate equality is a well-behaved tolerance relation.
#include "harness.hpp"

template <class G> struct C18 {
  typedef typename G::Scalar S;
  typedef typename G::Tangent T;
  typedef vf::Bars<S> B;
  vf::Report& R;
  const ref::Group& g;
  lat::Cfg cfg;
  C18(vf::Report& r) : R(r), g(vf::RG<G>()), cfg(vf::make_cfg<S>(r.args)) {}

  void expect(bool ok, const char* check, const std::string& key, const std::string& detail = "{}") {
    ++R.transitions;
    if (!R.judge(check, ok ? 0 : 1, 0.5, key)) R.fail(check, std::string(check) + "/" + key, 1, 0, detail);
  }
  static std::string linclass(ref::Real lin) {
    if (lin < 10) return "lin<1e1";
    if (lin < 1e3) return "lin<1e3";
    if (lin < 1e5) return "lin<1e5";
    if (lin < 1e7) return "lin<1e7";
    return "lin>=1e7";
  }

  void run() {
    std::vector<lat::XAtom> xs = lat::elements(g, cfg, cfg.thorough ? lat::FULL : lat::REDUCED, lat::PI - 1e-3L, true, true);
    if (cfg.thorough) xs = lat::thin(xs, 60000, R.args.seed);
    // add 1e9 / 1e6 linear magnitudes in the quick tier too (the REDUCED table stops at 1e3)
    {
      std::vector<lat::XAtom> big = lat::elements(g, cfg, lat::FULL, lat::PI - 1e-3L, true, true);
      std::vector<lat::XAtom> sel;
      for (size_t i = 0; i < big.size(); ++i) if (big[i].lin >= 1e5L) sel.push_back(big[i]);
      sel = lat::thin(sel, cfg.thorough ? 4000 : 400, R.args.seed);
      xs.insert(xs.end(), sel.begin(), sel.end());
    }
    const ref::Real epss[4] = {(ref::Real)manif::Constants<S>::eps, std::is_same<S, float>::value ? 1e-5L : 1e-10L, 1e-6L * (std::is_same<S, float>::value ? 100 : 1), 1e-3L};
    const double ratios[7] = {0, 1e-3, 0.1, 0.5, 2, 10, 1e3};
    R.product_size = (long)xs.size();
    std::set<std::string> distinct;
    for (size_t i = 0; i < xs.size(); ++i) {
      if (!R.mine()) continue;
      const lat::XAtom& xa = xs[i];
      if (!R.want(xa.key)) continue;
      G X = vf::make_elem<G>(xa.c);
      ++R.states;
      ref::Real lin = g.lin_scale_M(vf::Mof(X));
      std::string cls = linclass(lin);
      std::string dx = "{" + vf::kv("X", vf::hexvec(X.coeffs())) + "," + vf::kv("X_dec", vf::decvec(X.coeffs())) + "," + vf::kv("X.rminus(X)", vf::decvec(X.rminus(X).coeffs())) + "}";
      // reflexivity, also for large coordinates
      expect(X == X, "X==X", cls + "/" + xa.key, dx);
      expect(X.isApprox(X), "X.isApprox(X)", cls + "/" + xa.key, dx);
      expect(X.isApprox(X, S(1e-3)), "X.isApprox(X,1e-3)", cls + "/" + xa.key, dx);
      // the other coefficient vector of the same transformation
      {
        std::vector<char> m = g.rot_coeff_mask();
        G Xm = X; bool has3 = false;
        for (size_t b = 0; b < g.blocks.size(); ++b) if (g.blocks[b].rotdim == 3) { has3 = true; int o = g.offRep[b] + g.blocks[b].rot_c0; for (int k = 0; k < 4; ++k) Xm.coeffs()(o + k) = -Xm.coeffs()(o + k); }
        if (has3) {
          expect(X.isApprox(Xm, S(1e-3)) && Xm.isApprox(X, S(1e-3)), "q_and_minus_q_are_approx_equal(1e-3)", cls + "/" + xa.key, dx);
          expect((X == Xm) == (X == X), "q_and_minus_q_compare_like_X_with_itself", cls + "/" + xa.key, dx);
        }
      }
      if (xa.theta != 0 && distinct.insert(xa.key).second) ++R.nontrivial;
      // pairs at controlled tangent distance, every coordinate, several eps
      if (i % 3 == 0)
        for (int e = 0; e < 4; ++e) {
          ref::Real eps = epss[e];
          // only where the rounding noise of X (-) Y itself is negligible against eps
          if (16 * B::u * lin * lin > 0.4L * eps) { R.count("pair_cells_skipped_noise_not_negligible"); continue; }
          for (int c = 0; c < G::DoF; ++c)
            for (int r = 0; r < 7; ++r) {
              T d = T::Zero();
              d.coeffs()(c) = (S)(ratios[r] * eps);
              G Y = X + d;
              bool a = X.isApprox(Y, (S)eps), b = Y.isApprox(X, (S)eps);
              std::string key = cls + "/" + xa.key + ",eps=" + lat::fmt("%g", (double)eps) + ",coord=" + std::to_string(c) + ",s/eps=" + lat::fmt("%g", ratios[r]);
              expect(a == b, "isApprox_symmetric", key);
              if (ratios[r] <= 0.1) expect(a, "isApprox_true_well_below_eps", key);
              else if (ratios[r] >= 10) expect(!a, "isApprox_false_well_above_eps", key);
              else R.count(a ? "decade_around_eps_true" : "decade_around_eps_false");
            }
        }
      if (i == xs.size() / 2) R.sample("{" + vf::kv("cell", vf::q(xa.key)) + "," + vf::kv("X", vf::decvec(X.coeffs())) + "," + vf::kv("X==X", X == X ? "true" : "false") + "}");
    }
    tangents();
  }

  void tangents() {
    std::vector<lat::TAtom> ts = lat::tangents(g, cfg, lat::FULL, 1e30L, true);
    if (!cfg.thorough) ts = lat::thin(ts, 1500, R.args.seed);
    const ref::Real epss[3] = {(ref::Real)manif::Constants<S>::eps, 1e-6L * (std::is_same<S, float>::value ? 100 : 1), 1e-3L};
    const double ratios[7] = {0, 1e-3, 0.1, 0.5, 2, 10, 1e3};
    for (size_t i = 0; i < ts.size(); ++i) {
      if (!R.mine()) continue;
      if (!R.want("t:" + ts[i].key)) continue;
      T t = vf::make_tan<T>(ts[i].t);
      ++R.states;
      std::string key = "t:" + ts[i].key;
      expect(t.isApprox(t) && (t == t), "t.isApprox(t)", key);
      expect(t.isApprox(t.coeffs()), "t.isApprox(vector)", key);
      ref::Real n = vf::toL(t.coeffs()).norm();
      for (int e = 0; e < 3; ++e) {
        ref::Real eps = epss[e];
        for (int r = 0; r < 7; ++r)
          for (int c = 0; c < T::DoF; c += std::max(1, T::DoF / 3)) {
            // relative test when both norms are >= eps; absolute test against (near) zero otherwise
            T s = t;
            ref::Real delta = (n >= 10 * eps) ? ratios[r] * eps * n : ratios[r] * eps;
            T z = T::Zero();
            T base = (n >= 10 * eps) ? t : z;
            s = base; s.coeffs()(c) += (S)delta;
            // the perturbation must survive rounding, otherwise the pair is identical
            ref::Real real_delta = std::fabs((ref::Real)s.coeffs()(c) - (ref::Real)base.coeffs()(c));
            bool a = base.isApprox(s, (S)eps), b = s.isApprox(base, (S)eps);
            std::string k2 = key + ",eps=" + lat::fmt("%g", (double)eps) + ",coord=" + std::to_string(c) + ",ratio=" + lat::fmt("%g", ratios[r]) + (n >= 10 * eps ? ",relative" : ",absolute_vs_zero");
            expect(a == b, "tangent_isApprox_symmetric", k2);
            ref::Real rr = (n >= 10 * eps) ? real_delta / (eps * n) : real_delta / eps;
            if (rr <= 0.1) expect(a, "tangent_isApprox_true_well_below_eps", k2);
            else if (rr >= 10) expect(!a, "tangent_isApprox_false_well_above_eps", k2);
          }
      }
    }
  }
};

template <class G> void run_c18(vf::Report& R) { C18<G> c(R); c.run(); }
VF_MAIN("C18", run_c18)
