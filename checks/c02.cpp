// C02 — exp is the matrix exponential of hat, uniformly in the size of the tangent.
// Enumerates the full tangent lattice of the group; oracle = RefAlg expm(sum t_i G_i).
#include "harness.hpp"

template <class G> void run_c02(vf::Report& R) {
  typedef typename G::Scalar S;
  typedef typename G::Tangent T;
  typedef vf::Bars<S> B;
  const ref::Group& g = vf::RG<G>();
  lat::Cfg cfg = vf::make_cfg<S>(R.args);
  std::vector<lat::TAtom> ts = lat::tangents(g, cfg, lat::FULL);
  R.product_size = (long)ts.size();
  std::set<std::string> distinct;
  for (size_t i = 0; i < ts.size(); ++i) {
    if (!R.mine()) continue;
    const lat::TAtom& a = ts[i];
    if (!R.want(a.key)) continue;
    T t = vf::make_tan<T>(a.t);
    ref::Vec tl = vf::toL(t.coeffs());
    ++R.states;
    // branch bookkeeping (so that vacuous exploration is visible)
    {
      ref::Real th2 = a.theta * a.theta;
      if (a.theta == 0) R.count("theta_zero");
      else if (th2 < cfg.eps) R.count("below_sqrt_switch");
      else if (a.theta * th2 < cfg.eps) R.count("between_sqrt_and_cbrt_switch");
      else if (a.theta < lat::PI) R.count("generic_below_pi");
      else if (a.theta < 2 * lat::PI) R.count("pi_to_2pi");
      else R.count("beyond_2pi");
      if (a.lin >= 1e3L) R.count("lin>=1e3");
    }
    G X;
    bool threw = false;
    try { X = t.exp(); } catch (std::exception& e) { threw = true; }
    std::string detail = "{" + vf::kv("t", vf::hexvec(t.coeffs())) + "," + vf::kv("t_dec", vf::decvec(t.coeffs()));
    if (threw) { R.judge("exp_throws", 1, 0.5, a.key); R.fail("exp_throws", "exp/" + a.key, 1, 0, detail + "}"); continue; }
    ++R.transitions;
    // 1. finite
    bool fin = vf::all_finite(X.coeffs());
    if (!R.judge("exp_finite", fin ? 0 : 1, 0.5, a.key))
      R.fail("exp_finite", "exp/" + a.key, 1, 0, detail + "," + vf::kv("coeffs", vf::decvec(X.coeffs())) + "}");
    if (!fin) continue;
    // 2. matrix exponential
    ref::Mat E = g.exp(tl);
    ref::Mat Mx = vf::Mof(X);
    ref::Real lin = std::max(a.lin, g.lin_scale_M(E));
    ref::Real d = g.diffM(Mx, E, lin);
    // bar: B2 (1e-8 / 3e-4) is what SGal3 needs near its switch-overs (measured worst 2e-10 / 5e-6); every other group is
    // cancellation-free and measured at 4e-15 / 5e-6, so it is judged at B1 (1e-12 / 1e-4) — seed C02d (an accuracy loss
    // from 1e-15 to 1.6e-10 in SE2) showed that one bar for all groups hides a five-decade regression
    bool has_sgal3 = false;
    for (size_t bb = 0; bb < g.blocks.size(); ++bb) if (g.blocks[bb].kind == ref::SGAL3) has_sgal3 = true;
    const ref::Real bar_exp = has_sgal3 ? (ref::Real)B::B2 : (ref::Real)B::B1;
    if (!R.judge("exp_is_expm", d, bar_exp, a.key))
      R.fail("exp_is_expm", "exp/" + a.key, d, bar_exp,
             detail + "," + vf::kv("coeffs", vf::decvec(X.coeffs())) + "," + vf::kv("M_manif", vf::decmat(Mx)) + "," +
                 vf::kv("M_ref", vf::decmat(E)) + "," + vf::kv("scale", vf::jnum(lin)) + "}");
    // 3. result is a valid element (B5)
    ref::Real nd = vf::norm_dev(X);
    if (!R.judge("exp_unit_norm", nd, B::eps_lib, a.key))
      R.fail("exp_unit_norm", "exp/" + a.key, nd, B::eps_lib, detail + "," + vf::kv("coeffs", vf::decvec(X.coeffs())) + "}");
    // 4. transform() of the result is the documented embedding (subject: transform())
    // (checked in C13/C01; here only hat)
    ref::Mat H = vf::toLM(t.hat());
    ref::Mat Href = g.hat(tl);
    ref::Real dh = (H.rows() == Href.rows()) ? vf::maxabs((H - Href)) : 1;
    if (!R.judge("hat_is_sum_generators", dh, 1e-300L, a.key))
      R.fail("hat_is_sum_generators", "hat/" + a.key, dh, 0, detail + "," + vf::kv("hat", vf::decmat(H)) + "}");
    // 5. routes: free function exp(t) and deprecated retract() agree bit for bit
    {
      G X2 = manif::exp(t);
      bool same = vf::bits_equal(X2.coeffs(), X.coeffs());
      if (!R.judge("route_free_exp", same ? 0 : (ref::Real)vf::maxabs((X2.coeffs() - X.coeffs())) / lin, B::B1, a.key))
        R.fail("route_free_exp", "manif::exp/" + a.key, 1, B::B1, detail + "}");
      if (same) R.count("route_bit_identical");
    }
    bool nontrivial = a.theta != 0 && !(Mx - ref::Mat::Identity(g.N, g.N)).isZero(0);
    if (nontrivial && distinct.insert(a.key).second) ++R.nontrivial;
    if (i == 0 || i == ts.size() / 2 || i + 1 == ts.size())
      R.sample("{" + vf::kv("cell", vf::q(a.key)) + "," + vf::kv("t", vf::decvec(t.coeffs())) + "," + vf::kv("exp_coeffs", vf::decvec(X.coeffs())) +
               "," + vf::kv("resid_over_scale", vf::jnum(d)) + "}");
  }
}

VF_MAIN("C02", run_c02)
