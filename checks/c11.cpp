// C11 — a Bundle is the direct product of its element groups.
// One translation unit per bundle layout (VF_GROUP_TYPE = the Bundle type).  Offsets are recomputed by the harness as
// prefix sums of the documented per-group sizes (engine/ref.cpp); every bundle operation is compared with the same
// operation applied independently to each element (built from the coefficient segments, NOT through element<i>()).
#include "harness.hpp"

template <class Bn> struct C11 {
  typedef typename Bn::Scalar S;
  typedef typename Bn::Tangent T;
  typedef typename Bn::Jacobian J;
  typedef typename Bn::Vector P;
  typedef vf::Bars<S> Bars;
  static constexpr int NB = Bn::BundleSize;
  vf::Report& R;
  const ref::Group& g;
  lat::Cfg cfg;
  std::vector<int> offTra, offAlg;  // prefix sums of the elements' transformation / algebra matrix sizes
  std::string cur;
  C11(vf::Report& r) : R(r), g(vf::RG<Bn>()), cfg(vf::make_cfg<S>(r.args)) {
    offTra.push_back(0); offAlg.push_back(0);
    for (size_t b = 0; b < g.blocks.size(); ++b) {
      const ref::Block& B = g.blocks[b];
      bool pure_rot = B.kind == ref::SO2 || B.kind == ref::SO3;
      offTra.push_back(offTra.back() + B.N + (pure_rot ? 1 : 0));
      offAlg.push_back(offAlg.back() + B.N);
    }
  }

  template <int I> using El = typename Bn::template Element<I>;
  template <int I> using ElT = typename El<I>::Tangent;

  template <int I> El<I> elem(const Bn& X) const {
    El<I> e;
    for (int k = 0; k < El<I>::RepSize; ++k) e.coeffs()(k) = X.coeffs()(g.offRep[I] + k);
    return e;
  }
  template <int I> ElT<I> telem(const T& t) const {
    ElT<I> e;
    for (int k = 0; k < ElT<I>::DoF; ++k) e.coeffs()(k) = t.coeffs()(g.offDoF[I] + k);
    return e;
  }

  // static for over element indices
  template <int I, class F> typename std::enable_if<(I >= NB)>::type each(F&) {}
  template <int I, class F> typename std::enable_if<(I < NB)>::type each(F& f) { f(std::integral_constant<int, I>()); each<I + 1>(f); }

  template <class A, class Bm> void same(const char* op, const Eigen::MatrixBase<A>& got, const Eigen::MatrixBase<Bm>& want, bool exact = false) {
    bool eq = vf::bits_equal(got, want);
    if (eq) R.count("bit_identical_to_per_element");
    else R.count("not_bit_identical_to_per_element");
    ref::Real d = eq ? 0 : ((got.rows() == want.rows() && got.cols() == want.cols()) ? (ref::Real)vf::maxabs((got - want)) / std::max((ref::Real)1, (ref::Real)vf::maxabs(want)) : INFINITY);
    if (!(d == d)) d = INFINITY;
    if (!eq && d == 0) d = 0;  // +0 vs -0
    ++R.transitions;
    std::string k = std::string(op) + "/" + cur;
    ref::Real bar = exact ? 1e-300L : Bars::B1;
    if (!R.judge("bundle_equals_per_element", d, bar, k))
      R.fail("bundle_equals_per_element", k, d, bar, "{" + vf::kv("bundle", vf::decmat(got)) + "," + vf::kv("per_element", vf::decmat(want)) + "}");
  }
  void expect(bool ok, const char* check, const char* op) {
    ++R.transitions;
    std::string k = std::string(op) + "/" + cur;
    if (!R.judge(check, ok ? 0 : 1, 0.5, k)) R.fail(check, k, 1, 0, "{}");
  }

  static S nanv() { return std::numeric_limits<S>::quiet_NaN(); }

  // expected block-diagonal Jacobian: zero everywhere, blocks filled by the per-element call
  void cell(const Bn& X, const Bn& Y, const T& t, const T& s, const P& p) {
    typedef typename Bn::DataType CV;
    typedef typename T::DataType TV;
    C11* self = this;
    // ---- group -> group operations with Jacobians
    {
      J ja, jb; ja.setConstant(nanv()); jb.setConstant(nanv());
      Bn r = X.compose(Y, ja, jb);
      CV e; J ea = J::Zero(), eb = J::Zero();
      auto f = [&](auto ic) { constexpr int I = decltype(ic)::value; typename El<I>::Jacobian a, b;
        e.template segment<El<I>::RepSize>(self->g.offRep[I]) = self->template elem<I>(X).compose(self->template elem<I>(Y), a, b).coeffs();
        ea.template block<El<I>::DoF, El<I>::DoF>(self->g.offDoF[I], self->g.offDoF[I]) = a; eb.template block<El<I>::DoF, El<I>::DoF>(self->g.offDoF[I], self->g.offDoF[I]) = b; };
      each<0>(f);
      same("compose", r.coeffs(), e); same("compose.Ja", ja, ea); same("compose.Jb", jb, eb);
      { J a1, b1; a1.setConstant(nanv()); b1.setConstant(nanv()); X.compose(Y, a1); X.compose(Y, {}, b1); same("compose.Ja(alone)", a1, ea); same("compose.Jb(alone)", b1, eb); }
    }
    {
      J ja; ja.setConstant(nanv());
      Bn r = X.inverse(ja);
      CV e; J ea = J::Zero();
      auto f = [&](auto ic) { constexpr int I = decltype(ic)::value; typename El<I>::Jacobian a;
        e.template segment<El<I>::RepSize>(self->g.offRep[I]) = self->template elem<I>(X).inverse(a).coeffs();
        ea.template block<El<I>::DoF, El<I>::DoF>(self->g.offDoF[I], self->g.offDoF[I]) = a; };
      each<0>(f);
      same("inverse", r.coeffs(), e); same("inverse.J", ja, ea);
    }
    {
      J ja, jb; ja.setConstant(nanv()); jb.setConstant(nanv());
      Bn r = X.between(Y, ja, jb);
      CV e; J ea = J::Zero(), eb = J::Zero();
      auto f = [&](auto ic) { constexpr int I = decltype(ic)::value; typename El<I>::Jacobian a, b;
        e.template segment<El<I>::RepSize>(self->g.offRep[I]) = self->template elem<I>(X).between(self->template elem<I>(Y), a, b).coeffs();
        ea.template block<El<I>::DoF, El<I>::DoF>(self->g.offDoF[I], self->g.offDoF[I]) = a; eb.template block<El<I>::DoF, El<I>::DoF>(self->g.offDoF[I], self->g.offDoF[I]) = b; };
      each<0>(f);
      same("between", r.coeffs(), e); same("between.Ja", ja, ea); same("between.Jb", jb, eb);
      { J a1, b1; a1.setConstant(nanv()); b1.setConstant(nanv()); X.between(Y, a1); X.between(Y, {}, b1); same("between.Ja(alone)", a1, ea); same("between.Jb(alone)", b1, eb); }
    }
    {
      J ja, jb; ja.setConstant(nanv()); jb.setConstant(nanv());
      Bn r = X.rplus(t, ja, jb);
      CV e; J ea = J::Zero(), eb = J::Zero();
      auto f = [&](auto ic) { constexpr int I = decltype(ic)::value; typename El<I>::Jacobian a, b;
        e.template segment<El<I>::RepSize>(self->g.offRep[I]) = self->template elem<I>(X).rplus(self->template telem<I>(t), a, b).coeffs();
        ea.template block<El<I>::DoF, El<I>::DoF>(self->g.offDoF[I], self->g.offDoF[I]) = a; eb.template block<El<I>::DoF, El<I>::DoF>(self->g.offDoF[I], self->g.offDoF[I]) = b; };
      each<0>(f);
      same("rplus", r.coeffs(), e); same("rplus.Ja", ja, ea); same("rplus.Jb", jb, eb);
      { J a1, b1; a1.setConstant(nanv()); b1.setConstant(nanv()); X.rplus(t, a1); X.rplus(t, {}, b1); same("rplus.Ja(alone)", a1, ea); same("rplus.Jb(alone)", b1, eb); }
      same("X+t", (X + t).coeffs(), e);
    }
    {
      J ja, jb; ja.setConstant(nanv()); jb.setConstant(nanv());
      Bn r = X.lplus(t, ja, jb);
      CV e; J ea = J::Zero(), eb = J::Zero();
      auto f = [&](auto ic) { constexpr int I = decltype(ic)::value; typename El<I>::Jacobian a, b;
        e.template segment<El<I>::RepSize>(self->g.offRep[I]) = self->template elem<I>(X).lplus(self->template telem<I>(t), a, b).coeffs();
        ea.template block<El<I>::DoF, El<I>::DoF>(self->g.offDoF[I], self->g.offDoF[I]) = a; eb.template block<El<I>::DoF, El<I>::DoF>(self->g.offDoF[I], self->g.offDoF[I]) = b; };
      each<0>(f);
      same("lplus", r.coeffs(), e); same("lplus.Ja", ja, ea); same("lplus.Jb", jb, eb);
      { J a1, b1; a1.setConstant(nanv()); b1.setConstant(nanv()); X.lplus(t, a1); X.lplus(t, {}, b1); same("lplus.Ja(alone)", a1, ea); same("lplus.Jb(alone)", b1, eb); }
    }
    // ---- group -> tangent
    {
      J ja; ja.setConstant(nanv());
      T r = X.log(ja);
      TV e; J ea = J::Zero();
      auto f = [&](auto ic) { constexpr int I = decltype(ic)::value; typename El<I>::Jacobian a;
        e.template segment<El<I>::DoF>(self->g.offDoF[I]) = self->template elem<I>(X).log(a).coeffs();
        ea.template block<El<I>::DoF, El<I>::DoF>(self->g.offDoF[I], self->g.offDoF[I]) = a; };
      each<0>(f);
      same("log", r.coeffs(), e); same("log.J", ja, ea);
    }
    {
      J ja, jb; ja.setConstant(nanv()); jb.setConstant(nanv());
      T r = X.rminus(Y, ja, jb);
      TV e; J ea = J::Zero(), eb = J::Zero();
      auto f = [&](auto ic) { constexpr int I = decltype(ic)::value; typename El<I>::Jacobian a, b;
        e.template segment<El<I>::DoF>(self->g.offDoF[I]) = self->template elem<I>(X).rminus(self->template elem<I>(Y), a, b).coeffs();
        ea.template block<El<I>::DoF, El<I>::DoF>(self->g.offDoF[I], self->g.offDoF[I]) = a; eb.template block<El<I>::DoF, El<I>::DoF>(self->g.offDoF[I], self->g.offDoF[I]) = b; };
      each<0>(f);
      same("rminus", r.coeffs(), e); same("rminus.Ja", ja, ea); same("rminus.Jb", jb, eb);
      { J a1, b1; a1.setConstant(nanv()); b1.setConstant(nanv()); X.rminus(Y, a1); X.rminus(Y, {}, b1); same("rminus.Ja(alone)", a1, ea); same("rminus.Jb(alone)", b1, eb); }
      same("X-Y", (X - Y).coeffs(), e);
    }
    {
      J ja, jb; ja.setConstant(nanv()); jb.setConstant(nanv());
      T r = X.lminus(Y, ja, jb);
      TV e; J ea = J::Zero(), eb = J::Zero();
      auto f = [&](auto ic) { constexpr int I = decltype(ic)::value; typename El<I>::Jacobian a, b;
        e.template segment<El<I>::DoF>(self->g.offDoF[I]) = self->template elem<I>(X).lminus(self->template elem<I>(Y), a, b).coeffs();
        ea.template block<El<I>::DoF, El<I>::DoF>(self->g.offDoF[I], self->g.offDoF[I]) = a; eb.template block<El<I>::DoF, El<I>::DoF>(self->g.offDoF[I], self->g.offDoF[I]) = b; };
      each<0>(f);
      same("lminus", r.coeffs(), e); same("lminus.Ja", ja, ea); same("lminus.Jb", jb, eb);
      { J a1, b1; a1.setConstant(nanv()); b1.setConstant(nanv()); X.lminus(Y, a1); X.lminus(Y, {}, b1); same("lminus.Ja(alone)", a1, ea); same("lminus.Jb(alone)", b1, eb); }
    }
    // ---- tangent -> group
    {
      J ja; ja.setConstant(nanv());
      Bn r = t.exp(ja);
      CV e; J ea = J::Zero();
      auto f = [&](auto ic) { constexpr int I = decltype(ic)::value; typename El<I>::Jacobian a;
        e.template segment<El<I>::RepSize>(self->g.offRep[I]) = self->template telem<I>(t).exp(a).coeffs();
        ea.template block<El<I>::DoF, El<I>::DoF>(self->g.offDoF[I], self->g.offDoF[I]) = a; };
      each<0>(f);
      same("exp", r.coeffs(), e); same("exp.J", ja, ea);
    }
    // ---- act
    {
      Eigen::Matrix<S, Bn::Dim, Bn::DoF> jm, em = Eigen::Matrix<S, Bn::Dim, Bn::DoF>::Zero(); jm.setConstant(nanv());
      Eigen::Matrix<S, Bn::Dim, Bn::Dim> jv, ev = Eigen::Matrix<S, Bn::Dim, Bn::Dim>::Zero(); jv.setConstant(nanv());
      P r = X.act(p, jm, jv), e;
      auto f = [&](auto ic) { constexpr int I = decltype(ic)::value;
        Eigen::Matrix<S, El<I>::Dim, El<I>::DoF> a; Eigen::Matrix<S, El<I>::Dim, El<I>::Dim> b;
        typename El<I>::Vector pi = p.template segment<El<I>::Dim>(self->g.offDim[I]);
        e.template segment<El<I>::Dim>(self->g.offDim[I]) = self->template elem<I>(X).act(pi, a, b);
        em.template block<El<I>::Dim, El<I>::DoF>(self->g.offDim[I], self->g.offDoF[I]) = a; ev.template block<El<I>::Dim, El<I>::Dim>(self->g.offDim[I], self->g.offDim[I]) = b; };
      each<0>(f);
      same("act", r, e); same("act.Jm", jm, em); same("act.Jv", jv, ev);
      { Eigen::Matrix<S, Bn::Dim, Bn::DoF> m1; Eigen::Matrix<S, Bn::Dim, Bn::Dim> v1; m1.setConstant(nanv()); v1.setConstant(nanv());
        P r1 = X.act(p, m1), r2 = X.act(p, {}, v1); same("act(Jm alone)", r1, e); same("act(Jv alone)", r2, e); same("act.Jm(alone)", m1, em); same("act.Jv(alone)", v1, ev); }
    }
    // ---- DoF x DoF matrices
#define BLOCKDIAG(NAME, BUNDLE_EXPR, ELEM_EXPR)                                                                                   \
    {                                                                                                                             \
      J r = BUNDLE_EXPR; J e = J::Zero();                                                                                         \
      auto f = [&](auto ic) { constexpr int I = decltype(ic)::value;                                                              \
        e.template block<El<I>::DoF, El<I>::DoF>(self->g.offDoF[I], self->g.offDoF[I]) = ELEM_EXPR; };                            \
      each<0>(f);                                                                                                                 \
      same(NAME, r, e);                                                                                                           \
    }
    BLOCKDIAG("adj", X.adj(), self->template elem<I>(X).adj())
    BLOCKDIAG("rjac", t.rjac(), self->template telem<I>(t).rjac())
    BLOCKDIAG("ljac", t.ljac(), self->template telem<I>(t).ljac())
    BLOCKDIAG("rjacinv", t.rjacinv(), self->template telem<I>(t).rjacinv())
    BLOCKDIAG("ljacinv", t.ljacinv(), self->template telem<I>(t).ljacinv())
    BLOCKDIAG("smallAdj", t.smallAdj(), self->template telem<I>(t).smallAdj())
    BLOCKDIAG("InnerWeights", T::InnerWeights(), ElT<I>::InnerWeights())
    // ---- hat / Vee / transform (pure placements: exact)
    {
      typename T::LieAlg r = t.hat(), e = T::LieAlg::Zero();
      auto f = [&](auto ic) { constexpr int I = decltype(ic)::value; constexpr int N = ElT<I>::LieAlg::RowsAtCompileTime;
        e.template block<N, N>(self->offAlg[I], self->offAlg[I]) = self->template telem<I>(t).hat(); };
      each<0>(f);
      same("hat", r, e, true);
      expect((int)r.rows() == offAlg.back(), "algebra_size_is_sum_of_element_sizes", "hat");
      T back = T::Vee(r);
      same("Vee(hat)", back.coeffs(), t.coeffs(), true);
    }
    {
      typename Bn::Transformation r = X.transform(), e = Bn::Transformation::Zero();
      auto f = [&](auto ic) { constexpr int I = decltype(ic)::value; constexpr int N = El<I>::Transformation::RowsAtCompileTime;
        e.template block<N, N>(self->offTra[I], self->offTra[I]) = self->template elem<I>(X).transform(); };
      each<0>(f);
      same("transform", r, e, true);
      expect((int)r.rows() == offTra.back(), "transformation_size_is_sum_of_element_sizes", "transform");
    }
    // ---- inner products, bracket
    {
      S r = t.inner(s), e = S(0);
      auto f = [&](auto ic) { constexpr int I = decltype(ic)::value; e += self->template telem<I>(t).inner(self->template telem<I>(s)); };
      each<0>(f);
      // a sum of products: judged relative to |t|_W |s|_W (the magnitude of its terms), not to the possibly cancelled result
      {
        ref::Real sc = std::max((ref::Real)1, std::sqrt((ref::Real)t.inner(t) * (ref::Real)s.inner(s)));
        ref::Real d = std::fabs((ref::Real)r - (ref::Real)e) / sc;
        if (!(d == d)) d = INFINITY;
        ++R.transitions;
        if (!R.judge("bundle_equals_per_element", d, Bars::B1, "inner/" + cur))
          R.fail("bundle_equals_per_element", "inner/" + cur, d, Bars::B1, "{" + vf::kv("bundle", vf::jnum(r)) + "," + vf::kv("per_element", vf::jnum(e)) + "," + vf::kv("scale", vf::jnum(sc)) + "}");
      }
      T br = T::Bracket(t, s); TV eb;
      auto f2 = [&](auto ic) { constexpr int I = decltype(ic)::value; eb.template segment<El<I>::DoF>(self->g.offDoF[I]) = ElT<I>::Bracket(self->template telem<I>(t), self->template telem<I>(s)).coeffs(); };
      each<0>(f2);
      same("Bracket", br.coeffs(), eb);
    }
    // ---- element<i>() views alias exactly the i-th element's coefficients (owning, Map, Map<const>)
    {
      Bn Xc = X; T tc = t;
      Eigen::Map<Bn> mX(Xc.data()); const Eigen::Map<const Bn> cX(Xc.data());
      Eigen::Map<T> mt(tc.data()); const Eigen::Map<const T> ct(tc.data());
      bool ok = true, okv = true;
      auto f = [&](auto ic) { constexpr int I = decltype(ic)::value;
        // (const references: Map<const X>::data() is only callable on a const object)
        const auto& e1 = Xc.template element<I>(); const auto& e2 = mX.template element<I>(); const auto& e3 = cX.template element<I>();
        const auto& f1 = tc.template element<I>(); const auto& f2 = mt.template element<I>(); const auto& f3 = ct.template element<I>();
        ok = ok && (e1.data() - Xc.data()) == self->g.offRep[I] && (e2.data() - Xc.data()) == self->g.offRep[I] && (e3.data() - Xc.data()) == self->g.offRep[I];
        ok = ok && (f1.data() - tc.data()) == self->g.offDoF[I] && (f2.data() - tc.data()) == self->g.offDoF[I] && (f3.data() - tc.data()) == self->g.offDoF[I];
        okv = okv && vf::bits_equal(e1.coeffs(), self->template elem<I>(X).coeffs()) && vf::bits_equal(f1.coeffs(), self->template telem<I>(t).coeffs()) &&
              vf::bits_equal(e3.coeffs(), self->template elem<I>(X).coeffs()) && vf::bits_equal(f3.coeffs(), self->template telem<I>(t).coeffs()); };
      each<0>(f);
      expect(ok, "element_view_offset_is_prefix_sum", "element<i>()");
      expect(okv, "element_view_has_element_coefficients", "element<i>()");
      // writing through an element view changes exactly that element
      auto f3 = [&](auto ic) { constexpr int I = decltype(ic)::value;
        Bn Z = X; Z.template element<I>() = self->template elem<I>(Y);
        CV e = X.coeffs(); e.template segment<El<I>::RepSize>(self->g.offRep[I]) = self->template elem<I>(Y).coeffs();
        okv = okv && vf::bits_equal(Z.coeffs(), e); };
      okv = true; each<0>(f3);
      expect(okv, "element_view_write_changes_exactly_that_element", "element<i>()=");
    }
  }

  void statics() {
    C11* self = this;
    cur = "static";
    // Generator(i) for every i: the element's generator embedded at the element's algebra offset
    for (int i = 0; i < Bn::DoF; ++i) {
      typename T::LieAlg r = T::Generator(i), e = T::LieAlg::Zero();
      auto f = [&](auto ic) { constexpr int I = decltype(ic)::value; constexpr int N = ElT<I>::LieAlg::RowsAtCompileTime;
        if (i >= self->g.offDoF[I] && i < self->g.offDoF[I + 1]) e.template block<N, N>(self->offAlg[I], self->offAlg[I]) = ElT<I>::Generator(i - self->g.offDoF[I]); };
      each<0>(f);
      cur = "static;i=" + std::to_string(i);
      same("Generator", r, e, true);
      same("Generator_vs_documented", vf::toLM(r), g.gen(i), true);
      ++R.states;
    }
    cur = "static";
    // Random: every element is drawn by its own Random() from the std::rand stream.  The order in which a pack expansion
    // inside a constructor call is evaluated is unspecified, so first-to-last and last-to-first are both accepted.
    {
      srand(17); Bn r = Bn::Random();
      typename Bn::DataType e1, e2;
      srand(17);
      auto f = [&](auto ic) { constexpr int I = decltype(ic)::value; e1.template segment<El<I>::RepSize>(self->g.offRep[I]) = El<I>::Random().coeffs(); };
      each<0>(f);
      srand(17);
      auto fr = [&](auto ic) { constexpr int I = NB - 1 - decltype(ic)::value; e2.template segment<El<I>::RepSize>(self->g.offRep[I]) = El<I>::Random().coeffs(); };
      each<0>(fr);
      if (vf::bits_equal(r.coeffs(), e2)) same("Random", r.coeffs(), e2); else same("Random", r.coeffs(), e1);
      expect(vf::norm_dev(r) < Bars::eps_lib, "random_bundle_is_valid", "Random");
    }
    {
      // the same for the tangent bundle: Tangent::Random() is the concatenation of the elements' Tangent::Random() draws
      // (seed C11c replaced it by a coefficient-wise uniform draw, which never samples rotation angles beyond 1 rad)
      srand(23); T r = T::Random();
      typename T::DataType e1, e2;
      srand(23);
      auto f = [&](auto ic) { constexpr int I = decltype(ic)::value; e1.template segment<El<I>::DoF>(self->g.offDoF[I]) = ElT<I>::Random().coeffs(); };
      each<0>(f);
      srand(23);
      auto fr = [&](auto ic) { constexpr int I = NB - 1 - decltype(ic)::value; e2.template segment<El<I>::DoF>(self->g.offDoF[I]) = ElT<I>::Random().coeffs(); };
      each<0>(fr);
      if (vf::bits_equal(r.coeffs(), e2)) same("Tangent::Random", r.coeffs(), e2); else same("Tangent::Random", r.coeffs(), e1);
      srand(29); T q; q.setRandom();
      srand(29); T q2 = T::Random();
      same("Tangent::setRandom", q.coeffs(), q2.coeffs());
    }
    {
      Bn id = Bn::Identity(); typename Bn::DataType e;
      auto f = [&](auto ic) { constexpr int I = decltype(ic)::value; e.template segment<El<I>::RepSize>(self->g.offRep[I]) = El<I>::Identity().coeffs(); };
      each<0>(f);
      same("Identity", id.coeffs(), e, true);
    }
    // sizes
    expect(Bn::DoF == g.DoF && Bn::RepSize == g.Rep && Bn::Dim == g.Dim, "sizes_are_sums_of_element_sizes", "sizes");
    // element pack constructor
    {
      srand(5); Bn x = Bn::Random();
      Bn y = build_from_elements(x, std::make_integer_sequence<int, NB>());
      same("Bundle(elements...)", y.coeffs(), x.coeffs(), true);
    }
  }
  template <int... I> Bn build_from_elements(const Bn& x, std::integer_sequence<int, I...>) { return Bn(elem<I>(x)...); }

  void run() {
    std::vector<lat::XAtom> xs = lat::thin(lat::elements(g, cfg, lat::REDUCED, lat::PI - 1e-3L), cfg.thorough ? 200 : 40, R.args.seed);
    std::vector<lat::TAtom> ts = lat::thin(lat::tangents(g, cfg, lat::REDUCED, lat::PI - 1e-3L), cfg.thorough ? 200 : 40, R.args.seed);
    R.product_size = (long)xs.size() + Bn::DoF + 4;
    if (R.mine()) statics();
    P p; for (int i = 0; i < Bn::Dim; ++i) p(i) = S(0.25 * (i + 1) * ((i % 2) ? -1 : 1));
    for (size_t i = 0; i < xs.size(); ++i) {
      if (!R.mine()) continue;
      cur = xs[i].key + ";" + ts[i % ts.size()].key;
      if (!R.args.replay.empty() && R.args.replay.find(cur) == std::string::npos) continue;
      Bn X = vf::make_elem<Bn>(xs[i].c), Y = vf::make_elem<Bn>(xs[(i * 5 + 3) % xs.size()].c);
      T t = vf::make_tan<T>(ts[i % ts.size()].t), s = vf::make_tan<T>(ts[(i * 3 + 1) % ts.size()].t);
      ++R.states;
      if (xs[i].theta != 0) ++R.nontrivial;
      cell(X, Y, t, s, p);
      if (i == xs.size() / 2) R.sample("{" + vf::kv("cell", vf::q("all bundle operations/" + cur)) + "," + vf::kv("X", vf::decvec(X.coeffs())) + "," + vf::kv("t", vf::decvec(t.coeffs())) + "}");
    }
  }
};

template <class G> void run_c11(vf::Report& R) { C11<G> c(R); c.run(); }
VF_MAIN("C11", run_c11)
