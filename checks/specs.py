"""Per-property specifications: which harness units exist, how they are built and sharded."""
from driver import Unit

GROUPS = {
    'SO2': 'manif::SO2<{S}>',
    'SE2': 'manif::SE2<{S}>',
    'SO3': 'manif::SO3<{S}>',
    'SE3': 'manif::SE3<{S}>',
    'SE_2_3': 'manif::SE_2_3<{S}>',
    'SGal3': 'manif::SGal3<{S}>',
    'R1': 'manif::Rn<{S},1>',
    'R3': 'manif::Rn<{S},3>',
    'R9': 'manif::Rn<{S},9>',
    'Bundle_R2_SO3_R1': 'manif::Bundle<{S},manif::R2,manif::SO3,manif::R1>',
    'Bundle_SE2_SGal3_SE_2_3': 'manif::Bundle<{S},manif::SE2,manif::SGal3,manif::SE_2_3>',
}
BASE_GROUPS = ['SO2', 'SE2', 'SO3', 'SE3', 'SE_2_3', 'SGal3', 'R1', 'R3', 'R9']
BUNDLES = ['Bundle_R2_SO3_R1', 'Bundle_SE2_SGal3_SE_2_3']
ALL_GROUPS = BASE_GROUPS + BUNDLES
SCALARS = ['double', 'float']


def lattice_units(src, groups=ALL_GROUPS, scalars=SCALARS, builds=('ndebug',), shards=None, flags=(), defs=()):
    us = []
    for g in groups:
        for s in scalars:
            for b in builds:
                name = '%s/%s' % (g, s)
                ty = GROUPS[g].format(S=s)
                d = ['VF_GROUP_TYPE=' + ty, 'VF_UNIT="%s"' % name, 'VF_SCALAR=' + s] + list(defs)
                n = 1
                if shards:
                    n = shards(g, s) if callable(shards) else shards
                us.append(Unit(name, src, defs=d, build=b, shards=n, flags=flags))
    return us


NOT_CLAIMED = {}


class Spec:
    level = 'model_checking'
    engine = 'E1-lattice'
    technique = 'explicit exhaustive enumeration of a bounded input lattice on the real code against an independent reference model'
    design_ref = 'DESIGN.md section 4'
    level_text = ''
    level_note = 'trusted: RefAlg reference model (engine/ref.cpp), g++/Eigen/libm; bounded: finite atom lattice, not the continuum'
    thorough_deadline = 2400
    assumptions = []
    explanation = ''
    rule = ''

    def units(self, tier):
        return []


COMMON_ASSUMPTIONS = [
    'the reference model RefAlg (engine/ref.cpp: documented generators, matrix series, LU, Newton) in long double is correct; it is cross-checked by its own identities in checks/selftest',
    'g++ 12 / Eigen 3.4 / glibc libm as installed; results for other compilers or -ffast-math are not claimed',
    'continuous inputs are covered on the finite atom lattice of DESIGN.md 2.4 (both sides of every branch and every cancellation zone visible in the code), not on the continuum',
]


class C02(Spec):
    design_ref = 'DESIGN.md 4/C02'
    level_text = ('every tangent of the full atom lattice (rotation magnitude on both sides of every switch-over, generic, near and beyond pi; '
                  'linear parts 0..1e6 in three directions) for every group and both scalars is exponentiated by the real code and compared with an '
                  'extended-precision matrix exponential; bounded exhaustive exploration is the right level because the property quantifies over inputs of closed-form code with data-dependent branches')
    rule = ('full Cartesian product of the tangent atom tables (rotation magnitude x direction x linear magnitude x linear direction '
            'x extra linear parts) per group and scalar; a cell is one tangent t; it is non-trivial when its rotation magnitude is non-zero '
            'and exp(t) is not the identity matrix; distinct = distinct atom keys')
    explanation = 'explicit enumeration of the bounded input lattice on the real code; oracle = extended-precision matrix exponential of sum t_i G_i'
    assumptions = COMMON_ASSUMPTIONS

    def units(self, tier):
        sh = (lambda g, s: 4 if g in ('SGal3', 'SE_2_3', 'SE3') else 1) if tier == 'thorough' else None
        return lattice_units('checks/c02.cpp', shards=sh)


_SPECS = {'C02': C02}


def get(prop):
    c = _SPECS.get(prop)
    return c() if c else None


def all_props():
    return sorted(_SPECS)
