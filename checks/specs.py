"""Per-property specifications: which harness units exist, how they are built and sharded."""
from driver import Unit, ROOT
import os

GROUPS = {
    'SO2': 'manif::SO2<{S}>',
    'SE2': 'manif::SE2<{S}>',
    'SO3': 'manif::SO3<{S}>',
    'SE3': 'manif::SE3<{S}>',
    'SE_2_3': 'manif::SE_2_3<{S}>',
    'SGal3': 'manif::SGal3<{S}>',
    'R1': 'manif::Rn<{S},1>',
    'R3': 'manif::Rn<{S},3>',
    'R9': 'manif::Rn<{S},9>',
    'Bundle_R2_SO3_R1': 'manif::Bundle<{S},manif::R2,manif::SO3,manif::R1>',
    'Bundle_SE2_SGal3_SE_2_3': 'manif::Bundle<{S},manif::SE2,manif::SGal3,manif::SE_2_3>',
}
BASE_GROUPS = ['SO2', 'SE2', 'SO3', 'SE3', 'SE_2_3', 'SGal3', 'R1', 'R3', 'R9']
BUNDLES = ['Bundle_R2_SO3_R1', 'Bundle_SE2_SGal3_SE_2_3']
ALL_GROUPS = BASE_GROUPS + BUNDLES
SCALARS = ['double', 'float']


def lattice_units(src, groups=ALL_GROUPS, scalars=SCALARS, builds=('ndebug',), shards=None, flags=(), defs=()):
    us = []
    for g in groups:
        for s in scalars:
            for b in builds:
                name = '%s/%s' % (g, s)
                ty = GROUPS[g].format(S=s)
                d = ['VF_GROUP_TYPE=' + ty, 'VF_UNIT="%s"' % name, 'VF_SCALAR=' + s] + list(defs)
                n = 1
                if shards:
                    n = shards(g, s) if callable(shards) else shards
                us.append(Unit(name, src, defs=d, build=b, shards=n, flags=flags))
    return us


NOT_CLAIMED = {}


def sweep_units(prop, with_log):
    # thorough only: every float32 rotation magnitude in [2^-24, 8) for the float instantiations (226 492 416 values x 9 configurations)
    us = []
    for g in ['SO2', 'SE2', 'SO3', 'SE3', 'SE_2_3', 'SGal3']:
        name = '%s/float/f32_sweep' % g
        d = ['VF_GROUP_TYPE=' + GROUPS[g].format(S='float'), 'VF_UNIT="%s"' % name, 'VF_PROP="%s"' % prop] + (['VF_SWEEP_LOG=1'] if with_log else [])
        us.append(Unit(name, 'checks/c02_sweep.cpp', defs=d, flags=['-O2'], shards=16))
    return us


def oracle_selftest_unit(prop):
    # the reference model against hand-written closed forms and its own identities + NaN plumbing of the residual helpers (no manif code)
    return Unit('oracle/selftest', 'checks/selftest.cpp', defs=['VF_UNIT="oracle/selftest"', 'VF_PROP="%s"' % prop], flags=['-O2'])


def exact_unit(prop):
    # the library instantiated over exact rationals (GMP): group law, action, adjoint and Lie-algebra identities with zero residual
    return Unit('exact_rational', 'checks/c01_exact.cpp', defs=['VF_UNIT="ExactQ/all_groups"', 'VF_PROP="%s"' % prop], link=[], ldflags=['-lgmpxx', '-lgmp'],
                flags=['-I' + os.path.join(ROOT, 'checks')], deps=['checks/exactq.hpp'], shards=2, build='assert')


class Spec:
    level = 'model_checking'
    engine = 'E1-lattice'
    technique = 'explicit exhaustive enumeration of a bounded input lattice on the real code against an independent reference model'
    design_ref = 'DESIGN.md section 4'
    level_text = ''
    level_note = 'trusted: RefAlg reference model (engine/ref.cpp), g++/Eigen/libm; bounded: finite atom lattice, not the continuum'
    thorough_deadline = 2400
    assumptions = []
    explanation = ''
    rule = ''

    def units(self, tier):
        return []


COMMON_ASSUMPTIONS = [
    'the reference model RefAlg (engine/ref.cpp: documented generators, matrix series, LU, Newton) in long double is correct; it is cross-checked by its own identities in checks/selftest',
    'g++ 12 / Eigen 3.4 / glibc libm as installed; results for other compilers or -ffast-math are not claimed',
    'continuous inputs are covered on the finite atom lattice of DESIGN.md 2.4 (both sides of every branch and every cancellation zone visible in the code), not on the continuum',
]


class C02(Spec):
    design_ref = 'DESIGN.md 4/C02'
    level_text = ('every tangent of the full atom lattice (rotation magnitude on both sides of every switch-over, generic, near and beyond pi; '
                  'linear parts 0..1e6 in three directions) for every group and both scalars is exponentiated by the real code and compared with an '
                  'extended-precision matrix exponential; bounded exhaustive exploration is the right level because the property quantifies over inputs of closed-form code with data-dependent branches')
    rule = ('full Cartesian product of the tangent atom tables (rotation magnitude x direction x linear magnitude x linear direction '
            'x extra linear parts) per group and scalar; a cell is one tangent t; it is non-trivial when its rotation magnitude is non-zero '
            'and exp(t) is not the identity matrix; distinct = distinct atom keys')
    explanation = 'explicit enumeration of the bounded input lattice on the real code; oracle = extended-precision matrix exponential of sum t_i G_i'
    assumptions = COMMON_ASSUMPTIONS

    def units(self, tier):
        sh = (lambda g, s: 4 if g in ('SGal3', 'SE_2_3', 'SE3') else 1) if tier == 'thorough' else None
        us = lattice_units('checks/c02.cpp', shards=sh)
        if tier == 'thorough':
            us += sweep_units('C02', False)
        us.append(oracle_selftest_unit('C02'))
        return us


class C01(Spec):
    design_ref = 'DESIGN.md 4/C01'
    level_text = ('all pairs of the reduced element lattice (both quaternion hemispheres, angles 0..pi, linear parts 0..1e6), all element x point cells and all triples of a '
                  '6-element sub-lattice are composed / inverted / applied by the real code and compared with products, LU inverses and matrix-vector products of the '
                  'documented embedding, evaluated in extended precision')
    rule = ('cells: every element X of the reduced lattice (unary: inverse, two-sided inverse, neutral identity, transform), X x 5 points (act), X x Y pairs '
            '(compose, operator*), triples (associativity); non-trivial = both rotation angles non-zero; distinct = distinct atom-key tuples')
    explanation = 'explicit enumeration of element pairs/triples on the real code; oracle = matrix product / LU inverse of the documented embedding in long double'
    assumptions = COMMON_ASSUMPTIONS

    def units(self, tier):
        sh = (lambda g, s: 8 if 'SGal3' in g else (4 if g in ('SE_2_3', 'SE3') else 1)) if tier == 'thorough' else (lambda g, s: 2 if 'SGal3' in g else 1)
        us = lattice_units('checks/c01.cpp', shards=sh, defs=['VF_FN_ALL=1'])
        for u in us:
            u.bisect = [('all_but_transform', ['VF_FN=1']), ('transform', ['VF_FN=2'])]
        us.append(exact_unit('C01'))
        return us


class C03(Spec):
    design_ref = 'DESIGN.md 4/C03'
    level_text = ('every element of the full lattice built three ways (reference-built coefficient vectors in both quaternion hemispheres, manif exp of every lattice tangent '
                  'below pi, manif composition chains reaching angle 2pi-delta with w<0) has its log checked for finiteness, principal range, expm(hat(log X)) = M(X), '
                  'agreement with an independent Newton matrix logarithm and hemisphere independence')
    rule = ('cells: (A) full element lattice x {w>=0, w<0}; (B) every lattice tangent with rotation < pi (round trip); (C) composition chains exp(pi u)exp((pi-d)u), '
            'cubes of exp((2pi-d)/3 u) for 7 deltas per base tangent; non-trivial = rotation angle non-zero; distinct = atom keys')
    explanation = 'explicit enumeration of the element lattice on the real code; oracle = extended-precision expm and Newton matrix logarithm'
    assumptions = COMMON_ASSUMPTIONS

    def units(self, tier):
        sh = (lambda g, s: 8 if 'SGal3' in g else (4 if g in ('SE_2_3', 'SE3') else 1)) if tier == 'thorough' else (lambda g, s: 4 if 'SGal3' in g else (2 if g in ('SE_2_3', 'SE3') else 1))
        us = lattice_units('checks/c03.cpp', shards=sh)
        if tier == 'thorough':
            us += sweep_units('C03', True)
        return us


FREE_FN = {1: 'coeffs', 2: 'data', 3: 'identity(X)', 4: 'Identity<G>()', 5: 'zero(t)', 6: 'Zero<T>()', 7: 'random(X)', 8: 'Random<>()', 9: 'random(t)',
           10: 'inverse(X)', 11: 'rplus(X,t)', 12: 'lplus(X,t)', 13: 'plus(X,t)', 14: 'rminus(X,Y)', 15: 'lminus(X,Y)', 16: 'minus(X,Y)', 17: 'lift(X)',
           18: 'log(X)', 19: 'retract(t)', 20: 'exp(t)', 21: 'compose(X,Y)', 22: 'between(X,Y)', 23: 'act(X,v)',
           30: 'inverse(X,J)', 31: 'rplus(X,t,J,J)', 32: 'lplus(X,t,J,J)', 33: 'plus(X,t,J,J)', 34: 'rminus(X,Y,J,J)', 35: 'lminus(X,Y,J,J)',
           36: 'minus(X,Y,J,J)', 37: 'log(X,J)', 38: 'exp(t,J)', 39: 'compose(X,Y,J,J)', 40: 'between(X,Y,J,J)', 41: 'act(X,v,J,J)'}


class C04(Spec):
    design_ref = 'DESIGN.md 4/C04'
    level_text = ('every (element, tangent) and (element, element) pair of the reduced lattices is pushed through rplus/lplus/rminus/lminus/between of the real code and compared '
                  'with the documented compositions evaluated by the reference model (matrix product, expm, Newton log); every alias (operators, plus/minus, tangent-side forms, '
                  'Map/Map<const> operands, every free function of functions.h with and without Jacobian arguments) is compared with its canonical member, bit for bit')
    rule = ('cells: X x t (definitions of rplus/lplus, 12 aliases, (X+t)-X=t) and X x Y (rminus/lminus/between definitions and principal values, X+(Y-X)=Y, 9 aliases) over the reduced '
            'element lattice x tiny (quick) / reduced (thorough) second operand; free functions: 64 input pairs x 35 entries per group and scalar; non-trivial = both rotation angles non-zero')
    explanation = 'explicit enumeration of operand pairs on the real code; oracle = documented composition evaluated in extended precision; aliases against the canonical member'
    assumptions = COMMON_ASSUMPTIONS

    def units(self, tier):
        sh = (lambda g, s: 8 if 'SGal3' in g else (4 if g in ('SE_2_3', 'SE3') else 2)) if tier == 'thorough' else (lambda g, s: 4 if 'SGal3' in g else (2 if g in ('SE_2_3', 'SE3') else 1))
        us = lattice_units('checks/c04.cpp', shards=sh)
        free = lattice_units('checks/c04_free.cpp', defs=['VF_FN_ALL=1'])
        for u in free:
            u.name = u.name + '/free'
            u.defs = [d.replace('VF_UNIT="%s"' % u.name[:-5], 'VF_UNIT="%s"' % u.name) for d in u.defs]
            u.bisect = [('fn%02d_%s' % (k, v), ['VF_FN=%d' % k]) for k, v in sorted(FREE_FN.items())]
        return us + free


class C05(Spec):
    design_ref = 'DESIGN.md 4/C05'
    level_text = ('for every Jacobian-returning operation the analytic Jacobian of the real code is compared, on the full single-argument lattice (rotation 0..pi-1e-6 on both sides of '
                  'every switch-over, linear parts 0..1e6) and on the reduced pair lattices, with central differences of the extended-precision reference model (which shares no formula with manif); '
                  'forwarding forms (plus, minus, tangent-side rplus/lplus/plus) are compared bit for bit with their canonical member')
    rule = ('cells: every element / tangent of the full lattice with rotation <= pi-1e-6 (inverse, log, exp, tangent plus/minus), X x t (rplus, lplus and forwards), X x Y (compose, between, '
            'rminus, lminus, minus), X x 3 points (act wrt element and point); non-trivial = all rotation angles non-zero; distinct = atom-key tuples')
    explanation = 'explicit enumeration on the real code; oracle = central differences (h=1e-7) of the long-double reference model, bar 1e-6 (double) / 2e-2 (float) after unit-consistent scaling'
    assumptions = COMMON_ASSUMPTIONS + ['finite-difference oracle: truncation ~1e-14, round-off ~5e-13 relative, far below the 1e-6 bar']

    def units(self, tier):
        def sh(g, s):
            big = {'SGal3': 16, 'Bundle_SE2_SGal3_SE_2_3': 8, 'SE_2_3': 12, 'SE3': 6}
            n = big.get(g, 2)
            return n * 2 if tier == 'thorough' else n
        return lattice_units('checks/c05.cpp', shards=sh)


class C06(Spec):
    design_ref = 'DESIGN.md 4/C06'
    level_text = ('for every tangent of the full lattice with rotation <= pi-1e-6 (both sides of every switch-over, linear parts 0..1e6) rjac, ljac, rjacinv, ljacinv, smallAdj of the real code are compared '
                  'with the series sum (-ad)^k/(k+1)!, its LU inverse, expm(ad_t) and commutators of the documented generators evaluated in extended precision; adj() on the full element lattice '
                  'with conjugation M hat(s) M^-1; Adj(XY)=Adj(X)Adj(Y) on reduced pairs; a per-decade residual profile makes a collapse above a switch-over visible before it fails')
    rule = ('cells: every lattice tangent (rotation <= pi-1e-6): 9 identities + smallAdj; every lattice element (both hemispheres): adj; reduced x tiny element pairs: Adj homomorphism; '
            'non-trivial = rotation angle non-zero; distinct = atom keys')
    explanation = 'explicit enumeration on the real code; oracle = extended-precision series / LU / expm / commutators of the documented generators'
    assumptions = COMMON_ASSUMPTIONS

    def units(self, tier):
        def sh(g, s):
            big = {'SGal3': 8, 'Bundle_SE2_SGal3_SE_2_3': 2, 'SE_2_3': 4, 'SE3': 2}
            n = big.get(g, 1)
            return n * 2 if tier == 'thorough' else n
        us = lattice_units('checks/c06.cpp', shards=sh, defs=['VF_FN_ALL=1'])
        for u in us:
            u.bisect = [('all_but_smallAdj', ['VF_FN=1']), ('smallAdj', ['VF_FN=2'])]
        return us


class C07(Spec):
    design_ref = 'DESIGN.md 4/C07'
    level_text = ('every generator index in and out of range, every tangent of the full lattice (hat, Vee, norms), reduced x tiny pairs (bracket, inner product, additivity) and 8^3 triples (Jacobi) '
                  'are evaluated on the real code and compared with the hand-typed documented generator table, matrix commutators and Frobenius products in extended precision; '
                  'the exact-arithmetic instantiation (ExactQ) decides the identities with zero tolerance')
    rule = ('cells: indices {-2,-1,0..DoF-1,DoF,DoF+1,INT_MAX,INT_MIN}; full tangent lattice; pairs; triples; non-trivial = non-zero rotation; distinct = atom keys')
    explanation = 'explicit enumeration on the real code; oracle = documented generator table typed into engine/ref.cpp, commutators, Frobenius inner products'
    assumptions = COMMON_ASSUMPTIONS

    def units(self, tier):
        sh = (lambda g, s: 2 if 'SGal3' in g or g == 'SE_2_3' else 1)
        us = lattice_units('checks/c07.cpp', shards=sh)
        us.append(Unit('cross_type_first_use_order', 'checks/c07_cross.cpp', defs=['VF_UNIT="all_types/first_use_order"', 'VF_PROP="C07"'], shards=4))
        us.append(exact_unit('C07'))
        return us


class C08(Spec):
    engine = 'E3-bfs'
    thorough_deadline = 3300  # measured: the thorough space needs ~2 500 s on 16 idle cores
    design_ref = 'DESIGN.md 4/C08'
    technique = 'explicit-state breadth-first exploration of all operation sequences up to a depth plus all periodic histories up to a period, on the real code, states hashed on coefficient bits'
    level_text = ('all sequences over a ~40-operation alphabet (compose both sides, *=, between, +, +=, t+X, inverse, log-exp, squaring, cast, Random, setIdentity, 11 interpolations, 4 averages) up to depth 2 (quick) / 3 (thorough) '
                  'from 6 start elements incl. both edges of the norm acceptance band, and all periodic histories with period 1 (x 2e4 / 2e6 steps), 2 (x 400 / 2e4) and 3 (thorough), in the assertion-enabled and the NDEBUG build; '
                  'invariant in every state: finite coefficients, unit rotation part within the library threshold, no exception, deviation not growing with length')
    level_note = 'bounded: history length, period and depth as stated; "arbitrarily long" is argued from the non-growth of the deviation over the last decades, not proved'
    rule = ('states = distinct coefficient bit patterns reached; transitions = operation applications; a state is non-trivial when its rotation norm differs from 1 in the last bits (renormalisation matters); '
            'cells are histories (op-name sequences from a named start) and periodic words')
    explanation = 'explicit-state exploration of operation histories on the real code; oracle = validity invariant evaluated in extended precision in every state'
    assumptions = ['linear coordinates are kept inside |x|<=1e6: a history leaving that box is stopped and counted (overflow by repeated doubling is arithmetic, not a library defect)',
                   'Random() is exercised through std::rand with a fixed seed']

    def units(self, tier):
        us = []
        for b in ('assert', 'ndebug'):
            for u in lattice_units('checks/c08.cpp', builds=(b,), defs=['VF_FN_ALL=1'], shards=(lambda g, s: 8 if tier == 'thorough' else 4)):
                u.bisect = [('without_frechet_and_weighted_average', ['VF_FN=1']), ('frechet', ['VF_FN=2']), ('weighted_average', ['VF_FN=3'])]
                us.append(u)
        return us


class C09(Spec):
    engine = 'E3-bfs'
    design_ref = 'DESIGN.md 4/C09'
    technique = 'exhaustive enumeration of output subsets x lattice inputs, and explicit-state exploration of call histories in fresh forked processes (hidden state = initialised function-local statics)'
    level_text = ('all 2^k subsets of the optional Jacobian outputs of 17 operations (plus outputs bound to blocks of larger sentinel-filled matrices) on lattice inputs; all ordered pairs (thorough: triples) of ~45 calls, '
                  'each history in a fresh forked process so that the first use of every lazily initialised static is real, last result compared bytewise with the same call alone in a fresh process; '
                  '17 aliasing patterns (X=X*X, Map updated in place, Map over the other operand buffer) compared bitwise with the unaliased computation')
    rule = ('states = (operation, input cell) for subsets/aliasing and call histories for purity; transitions = individual expectations evaluated; non-trivial = both rotations non-zero, resp. histories of two different calls')
    explanation = 'explicit enumeration on the real code; oracle = the same call with no optional output / alone in a fresh process / unaliased (bitwise)'
    assumptions = ['bitwise comparisons are between executions of the same binary; no tolerance is involved']
    level_note = 'trusted: fork() gives each history a pristine copy of the never-initialised statics (the parent never calls a manif function before forking)'

    def units(self, tier):
        us = lattice_units('checks/c09.cpp', shards=(lambda g, s: 4 if tier == 'thorough' else 2))
        us.append(Unit('cross_type_first_use_order', 'checks/c07_cross.cpp', defs=['VF_UNIT="all_types/first_use_order"', 'VF_PROP="C09"'], shards=4))
        return us


class C10(Spec):
    engine = 'E5-progmatrix'
    design_ref = 'DESIGN.md 4/C10'
    technique = 'exhaustive matrix operation x operand kinds x buffer placement x input on the real code; buffers between PROT_NONE guard pages with canary bytes'
    level_text = ('~75 read-only operations are executed with every pair of operand kinds {owning, Map, Map<const>} (orthogonal array of strength 2 over the four operand positions = the full kind matrix of every unary/binary operation) '
                  'and 30 mutating operations through mutable views, for 4 buffer placements (16-byte aligned, sizeof(Scalar)-offset, flush with a trailing PROT_NONE page, flush after a leading one); '
                  'results are compared with the all-owning computation (bit-identical count reported), every byte of the data page outside the viewed scalars is a canary, any access outside the buffer faults and is attributed to the cell')
    rule = ('cells = (kind row, placement, input) for reads and (mutating op, placement, input) for writes; non-trivial = at least one view operand and non-zero rotation')
    explanation = 'explicit enumeration of the operand-kind/placement matrix on the real code; oracle = owning computation (bitwise), canaries, guard pages'
    assumptions = ['x86-64: misaligned-by-sizeof(Scalar) buffers are legal for unaligned Eigen::Map', 'a stray access that stays inside the viewed buffer cannot be seen by guard pages; it is caught by the result comparison']
    level_note = 'trusted: mprotect guard pages + SIGSEGV attribution via sigsetjmp'

    def units(self, tier):
        us = lattice_units('checks/c10.cpp', defs=['VF_FN_ALL=1'], shards=(lambda g, s: 2 if tier == 'thorough' else 1))
        for u in us:
            u.bisect = [('all_but_bracket_and_J_times_t_on_views', ['VF_FN=1']), ('bracket_with_view_operand', ['VF_FN=2']), ('J_times_view_tangent', ['VF_FN=3'])]
        return us


ELEM = {'R1': 'manif::R1', 'R3': 'manif::R3', 'SO2': 'manif::SO2', 'SE2': 'manif::SE2', 'SO3': 'manif::SO3', 'SE3': 'manif::SE3', 'SE_2_3': 'manif::SE_2_3', 'SGal3': 'manif::SGal3',
        'R2': 'manif::R2', 'R7': 'manif::R7'}
ELEM8 = ['R1', 'R3', 'SO2', 'SE2', 'SO3', 'SE3', 'SE_2_3', 'SGal3']


def bundle_unit(src, names, scalar, build='ndebug', defs=(), shards=1):
    name = 'Bundle_' + '_'.join(names) + '/' + scalar
    ty = 'manif::Bundle<%s,%s>' % (scalar, ','.join(ELEM[n] for n in names))
    return Unit(name, src, defs=['VF_GROUP_TYPE=' + ty, 'VF_UNIT="%s"' % name, 'VF_SCALAR=' + scalar] + list(defs), build=build, shards=shards)


class C11(Spec):
    engine = 'E5-progmatrix'
    design_ref = 'DESIGN.md 4/C11'
    technique = 'exhaustive matrix of generated bundle layouts (one program per layout), each operation compared with the per-element operation placed at harness-computed prefix-sum offsets'
    level_text = ('quick: all 8 single-element bundles and all 64 ordered pairs over {R1,R3,SO2,SE2,SO3,SE3,SE_2_3,SGal3} (every group first and last, every combination of Dim/DoF/RepSize/matrix sizes), '
                  '14 triples/quadruples (every group in the middle, repeated elements, the suite layouts) in double, 10 layouts in float; thorough: all 512 ordered triples. '
                  'Every operation of the statement is compared with the per-element result placed at prefix-sum offsets recomputed by the harness; Jacobian off-diagonal blocks must be exact zeros (outputs pre-filled with NaN); element<i>() views must alias the prefix-sum offset')
    rule = ('cells = (layout, input of the bundle lattice) x ~45 operations; non-trivial = non-zero rotation in some element')
    explanation = 'explicit enumeration of the layout matrix on the real code; oracle = per-element operation + integer prefix sums of the documented sizes'
    assumptions = ['per-element operations themselves are judged by C01-C07; C11 judges only the direct-product structure']

    def layouts(self, tier):
        L = [[a] for a in ELEM8] + [[a, b] for a in ELEM8 for b in ELEM8]
        L += [['R1', g, 'R3'] for g in ['SO2', 'SE2', 'SO3', 'SE3', 'SE_2_3', 'SGal3']]
        L += [['SO3', 'SO3', 'SO3'], ['SE2', 'R2', 'SE2'], ['R2', 'SO3', 'R1'], ['SE2', 'SGal3', 'SE_2_3'], ['SO2', 'R1', 'SO2', 'R3'], ['SE3', 'SO3', 'R3', 'SO2'],
              ['SE2', 'SO2', 'SE3', 'SO3'], ['R7', 'SE_2_3', 'R2']]
        if tier == 'thorough':
            L += [[a, b, c] for a in ELEM8 for b in ELEM8 for c in ELEM8]
        seen, out = set(), []
        for l in L:
            if tuple(l) not in seen:
                seen.add(tuple(l))
                out.append(l)
        return out

    def units(self, tier):
        us = [bundle_unit('checks/c11.cpp', l, 'double') for l in self.layouts(tier)]
        fl = [['SO2'], ['SGal3'], ['SE2', 'SO3'], ['SO3', 'SE2'], ['SGal3', 'R1'], ['R3', 'SE_2_3'], ['SE3', 'SO2'], ['R1', 'SE3', 'R3'], ['SE2', 'SGal3', 'SE_2_3'], ['SO2', 'R1', 'SO2', 'R3']]
        us += [bundle_unit('checks/c11.cpp', l, 'float') for l in fl]
        return us


KIND = {'SO2': 1, 'SE2': 2, 'SO3': 3, 'SE3': 4, 'SE_2_3': 5, 'SGal3': 6, 'R1': 7, 'R3': 7, 'R9': 7, 'Bundle_R2_SO3_R1': 8, 'Bundle_SE2_SGal3_SE_2_3': 8}


class C13(Spec):
    design_ref = 'DESIGN.md 4/C13'
    level_text = ('every constructor / setter of every group is driven over argument lattices (angles k*pi/8 over +-8 periods, +-1e6, +-(pi +- 1 ulp); all 17^3 roll-pitch-yaw triples on the pi/4 grid incl. gimbal lock; '
                  'unit quaternions of the reduced lattice in both hemispheres; angle-axis; isometries; translations / velocities up to 1e6) and the element, its accessors, rotation(), transform()/isometry() and casts are '
                  'compared with the documented matrix built independently in extended precision; the norm lattice 1 + kappa*eps (kappa from 0 to +-1e10) decides the validation behaviour of every entry point that accepts rotation data, '
                  'in the assertion-enabled and the NDEBUG build')
    rule = ('cells = (constructor, argument atoms) and (entry point, quaternion/complex direction, kappa); non-trivial = distinct constructed elements; the band 0.9 < |kappa| < 1.1 is recorded but not judged')
    explanation = 'explicit enumeration of constructor argument lattices on the real code; oracle = documented rotation conventions (Rz(yaw)Ry(pitch)Rx(roll), Rodrigues, quaternion to matrix) in long double'
    assumptions = COMMON_ASSUMPTIONS + ['roll-pitch-yaw convention taken as R = Rz(yaw) Ry(pitch) Rx(roll) (the usual aerospace convention, stated in the constructor documentation)']

    def units(self, tier):
        us = []
        for b in ('assert', 'ndebug'):
            for u in lattice_units('checks/c13.cpp', builds=(b,)):
                gname = u.name.split('/')[0]
                u.defs.append('VF_KIND=%d' % KIND[gname])
                us.append(u)
        return us


class C18(Spec):
    design_ref = 'DESIGN.md 4/C18'
    level_text = ('reflexivity (X==X, X.isApprox(X)) and hemisphere independence on the element lattice incl. linear magnitudes up to 1e9; symmetry and the well-below / well-above eps behaviour for every tangent coordinate, '
                  '7 distance ratios and 4 eps values, on every third element (where the rounding noise of X(-)Y is negligible against eps); the same for tangents (absolute test against zero, relative otherwise)')
    rule = 'cells = elements x {reflexive, -q}, (element, eps, coordinate, ratio), (tangent, eps, coordinate, ratio); the decade around eps is recorded, not judged; non-trivial = non-zero rotation'
    explanation = 'explicit enumeration on the real code; oracle = the tolerance relation stated in the property (true when s <= 0.1 eps, false when s >= 10 eps)'
    assumptions = COMMON_ASSUMPTIONS

    def units(self, tier):
        return lattice_units('checks/c18.cpp', shards=(lambda g, s: (4 if 'SGal3' in g or g == 'SE_2_3' else 2) * (2 if tier == 'thorough' else 1)))


class C15(Spec):
    design_ref = 'DESIGN.md 4/C15'
    level_text = ('every pair (A,B) of the reduced x tiny element lattices with relative rotation <= pi-1e-6: end points for all three methods and all 9 pairs of end velocities (zero, O(1), 1e3-sized), '
                  'rejection of 7 out-of-range parameters (incl. 1+ulp, +-inf, NaN), the SLERP geodesic law at 8 parameters (0, ulp, 1e-9, 1/4, 1/2, 3/4, 1-ulp/2, 1) against A expm(t log(A^-1 B)) of the reference model, '
                  'left equivariance for 3 translations; the smoothing polynomial over exact rationals (GMP) on the grid k/1024 for every degree 0..8 and over all floats in [0,1] (thorough) / a 2^-16 grid (quick)')
    rule = 'cells = (A, B) pairs x (method, velocities | t | g); phi: (degree, grid point); non-trivial = both end-point rotations non-zero'
    explanation = 'explicit enumeration on the real code; oracle = reference-model geodesic, exact rational arithmetic for the polynomial'
    assumptions = COMMON_ASSUMPTIONS + ['supported smoothing degrees are {1,2,3,4} (the degrees the implementation documents); any other degree must raise']

    def units(self, tier):
        us = lattice_units('checks/c15.cpp', shards=(lambda g, s: (4 if 'SGal3' in g or g == 'SE_2_3' else 2) * (2 if tier == 'thorough' else 1)))
        us.append(Unit('phi', 'checks/c15_phi.cpp', defs=['VF_UNIT="smoothing_phi/exact+float"'], link=[], ldflags=['-lgmpxx', '-lgmp']))
        return us


class C16(Spec):
    design_ref = 'DESIGN.md 4/C16'
    level_text = ('deterministic point sets: 10 (thorough 60) lattice centres incl. rotations ~pi from the identity and |translation| 1e3, offsets exp(delta_j) from a fixed 50-vector table scaled to radius {0,1e-9,1e-3,0.1,0.5}, '
                  'sizes {1,2,3,5,10,50}; all four routines; result valid, identical points return the point, empty set raises, stationarity of the bi-invariant mean condition against the reference log, '
                  'all permutations for n<=4 (reversal and rotations beyond), 3 left and right translations')
    rule = 'cells = (centre, radius, size) x routine x {stationarity, order, left/right translation}; non-trivial = radius > 0 and n > 1'
    explanation = 'explicit enumeration of deterministic point sets on the real code; oracle = residual mean tangent computed with the reference logarithm, tolerance 10 sqrt(stopping eps) (x |Adj| where the routine stops in the world frame)'
    assumptions = COMMON_ASSUMPTIONS + ['point sets are a fixed deterministic family, not all sets within the radius']

    def units(self, tier):
        us = lattice_units('checks/c16.cpp', defs=['VF_FN_ALL=1'], shards=(lambda g, s: (8 if 'SGal3' in g else (4 if g in ('SE_2_3', 'SE3') else 2)) * (2 if tier == 'thorough' else 1)))
        for u in us:
            u.bisect = [('biinvariant', ['VF_FN=1']), ('weighted_average', ['VF_FN=2']), ('frechet', ['VF_FN=3'])]
        return us


class C17(Spec):
    engine = 'E5-progmatrix'
    design_ref = 'DESIGN.md 4/C17'
    technique = 'exhaustive enumeration of the configuration box (N, degree, k, closed) on the real code, each configuration in a forked child under AddressSanitizer with a CPU limit, against an independent integer model'
    level_text = ('all (N, degree, k, closed) with 3<=N<=10 (thorough 16), 2<=degree<=N, 1<=k<=2 (thorough 4), open and closed, two trajectories (equal-step geodesic, zig-zag), groups SE2/SO3/SE3/R3, plus the rejected configurations; '
                  'each one runs in a forked child under AddressSanitizer (exact-size trajectory storage) with a 5 s CPU limit; the result size, the end point of every window and, for degree 2, every curve point are compared with an independent integer window model and reference-model geodesics')
    rule = 'cells = configurations (N, d, k, closed, trajectory) per group; non-trivial = degree > 2 or closed'
    explanation = 'explicit enumeration of the configuration box; oracle = integer model windows = floor((N-1)/(d-1)) (+1 closed), size = windows * (d==2 ? k : k*d), last point of window s = control point s(d-1)+d-1'
    assumptions = ['trajectories are two fixed deterministic families', 'AddressSanitizer reports every read outside the trajectory storage']
    level_note = 'trusted: AddressSanitizer, fork/rlimit sandbox, RefAlg for geodesics'

    def units(self, tier):
        us = lattice_units('checks/c17.cpp', groups=['SE2', 'SO3', 'SE3', 'R3'], scalars=['double'], flags=['-fsanitize=address', '-fno-omit-frame-pointer'], shards=4)
        us += lattice_units('checks/c17.cpp', groups=['SE2'], scalars=['float'], flags=['-fsanitize=address', '-fno-omit-frame-pointer'], shards=4)
        for u in us:
            u.ldflags = ['-fsanitize=address']
            u.link = ['ref_asan']
        return us


class C12(Spec):
    design_ref = 'DESIGN.md 4/C12'
    level_text = ('the library is instantiated over a forward-mode dual number that clones the ceres::Jet interface (Dual<DoF>); on reduced-lattice inputs (incl. theta = 0 where the perturbation sits on the small-angle branch boundary, '
                  'and the small-angle region) every operation must return the double primal and the dual parts of f(X (+) d) (-) f(X) at d = 0 must equal the analytic Jacobian of the same call over double; '
                  'the four ceres functors are driven through raw pointers for double and Dual; float instantiations are compared with double')
    rule = 'cells = lattice input pairs x (14 operations x {primal, derivative wrt each argument}, 8 functor calls, 7 float/double comparisons); non-trivial = non-zero rotations'
    explanation = 'explicit enumeration on the real code instantiated over dual numbers; oracle = analytic Jacobians over double (themselves judged against the reference model by C05) and member functions'
    assumptions = COMMON_ASSUMPTIONS + ['engine/dual.hpp reproduces the ceres::Jet interface (ceres itself is not installed); manif/ceres/*.h functors depend only on Eigen and are included directly']

    def units(self, tier):
        us = lattice_units('checks/c12.cpp', scalars=['double'], builds=('assert',), defs=['VF_FN_ALL=1'], shards=(lambda g, s: 2 if tier == 'thorough' else 1))
        for u in us:
            u.bisect = [('operations_over_dual', ['VF_FN=1']), ('ceres_functors', ['VF_FN=2'])]
        return us


class C19(Spec):
    engine = 'E5-progmatrix'
    design_ref = 'DESIGN.md 4/C19'
    technique = 'exhaustive matrix of generated one-entry client programs {API entry} x {group} x {scalar} x {storage kind}, each compiled at -std=c++11, linked, run and compared with the canonical member'
    level_text = ('~150 documented API entries (members, operators, static helpers, group-specific accessors, functions.h, interpolation/average/decasteljau, utilities) x 11 groups (incl. two bundles) x {float,double} x {owning, Map, Map<const>} '
                  '(mutating entries are omitted for const views): every cell is a generated client function; a batch per (group, scalar, kind) is compiled with -std=c++11, linked and run, each entry compared with its canonical member on an owning copy; '
                  'cells that do not compile are attributed through the diagnostics and named individually')
    rule = 'cells = (entry, group, scalar, storage kind); a cell passes iff it compiles, links, runs and equals the canonical member; non-trivial = cells that ran and agreed'
    explanation = 'exhaustive enumeration of the finite program matrix; oracle = the compiler (instantiability) and the canonical member on an owning operand (forwarding)'
    assumptions = ['g++ 12 at -std=c++11 only', 'the entry list is taken from README, docs/pages/cpp and the base-class declarations (engine/progmatrix.py)']
    level_note = 'trusted: g++; the entry table'

    def units(self, tier):
        return []

    def prebuild(self, tier, jobs):
        import progmatrix
        progmatrix.run_matrix([(g, GROUPS[g]) for g in ALL_GROUPS], SCALARS, tier, jobs, build_only=True)

    def run_python(self, tier, seed, jobs, deadline, replay_obj):
        import progmatrix
        groups = [(g, GROUPS[g]) for g in ALL_GROUPS]
        if tier == 'thorough':
            groups += [('R2', 'manif::Rn<{S},2>'), ('R5', 'manif::Rn<{S},5>'),
                       ('Bundle_SO2_SE3', 'manif::Bundle<{S},manif::SO2,manif::SE3>'),
                       ('Bundle_SE_2_3_R3_SO3', 'manif::Bundle<{S},manif::SE_2_3,manif::R3,manif::SO3>'),
                       ('Bundle_SGal3', 'manif::Bundle<{S},manif::SGal3>')]
        return progmatrix.run_matrix(groups, SCALARS, tier, jobs)


class C14(Spec):
    engine = 'E4-sched'
    design_ref = 'DESIGN.md 4/C14'
    technique = 'stateless preemption-bounded exploration of thread interleavings on the real code (baton scheduler over hooked static-initialisation guards, every execution in a forked child), with a vector-clock happens-before race detector fed by compiler-inserted access hooks'
    level_text = ('2 real threads, every unordered pair of 22 const calls (12 of them touching lazily initialised statics: Identity, setIdentity, Zero, Generator, InnerWeights, adj, rjac, ljac, smallAdj, inner, isApprox): ALL schedules '
                  '(the preemption bound is iterated until a larger bound adds no schedule); 3 threads on the static-touching triples with <= 2 (thorough 4) preemptions; thorough: 2-call programs per thread and 4 threads on Identity. '
                  'Every execution runs in a fresh forked process (first use is real); oracle: no happens-before-unordered conflicting access, no deadlock, per-thread results bitwise equal to the single-thread reference. Companion (not deciding): the same thread bodies free-running under the real ThreadSanitizer runtime, every pair and 4-thread same-op programs, 2 (thorough 12) runs each in fresh processes')
    rule = ('states = thread programs explored; transitions = complete schedules executed; non-trivial = programs with >= 2 threads; outcomes = distinct orders of completed static initialisations')
    explanation = 'systematic concurrency testing (CHESS style) on the implementation; scheduling points = thread start/exit and __cxa_guard_acquire/release/abort; an acquire load of a guard byte that observes 1 is a happens-before edge, not a scheduling point (the byte goes 0->1 once)'
    assumptions = ['the C++11 guard protocol is modelled by our own implementation of __cxa_guard_*', 'clang -fsanitize=thread instruments every non-stack memory access of the harness and of the (header-only) library',
                   'weak-memory reorderings are not modelled beyond happens-before race freedom (race-free programs are sequentially consistent)', '2-4 threads, 1-2 calls per thread']
    level_note = 'trusted: the scheduler/detector in engine/sched/sched.cpp and the compiler instrumentation'

    def units(self, tier):
        us = []
        for g in ALL_GROUPS:
            for s in (['double', 'float'] if g in ('SO2', 'SE3', 'R3') else ['double']):
                name = '%s/%s' % (g, s)
                us.append(Unit(name, 'checks/c14.cpp', defs=['VF_GROUP_TYPE=' + GROUPS[g].format(S=s), 'VF_UNIT="%s"' % name], build='ndebug', cxx='clang++',
                               flags=['-fsanitize=thread'], link=['sched'], shards=(8 if tier == 'thorough' else 4), two_step=True))
                # companion pass: the same thread bodies free-running under the real ThreadSanitizer runtime (cross-check of our detector)
                if s == 'double':
                    us.append(Unit(name + '/tsan_free', 'engine/sched/free.cpp', extra_srcs=['checks/c14.cpp'], defs=['VF_GROUP_TYPE=' + GROUPS[g].format(S=s), 'VF_UNIT="%s/tsan_free"' % name],
                                   build='ndebug', cxx='clang++', flags=['-fsanitize=thread'], link=[], shards=2))
        return us


_SPECS = {'C14': C14, 'C19': C19, 'C08': C08, 'C09': C09, 'C10': C10, 'C11': C11, 'C12': C12, 'C13': C13, 'C15': C15, 'C16': C16, 'C17': C17, 'C18': C18, 'C01': C01, 'C02': C02, 'C03': C03, 'C04': C04, 'C05': C05, 'C06': C06, 'C07': C07}


def get(prop):
    c = _SPECS.get(prop)
    return c() if c else None


def all_props():
    return sorted(_SPECS)
