"""Per-property specifications: which harness units exist, how they are built and sharded."""
from driver import Unit

GROUPS = {
    'SO2': 'manif::SO2<{S}>',
    'SE2': 'manif::SE2<{S}>',
    'SO3': 'manif::SO3<{S}>',
    'SE3': 'manif::SE3<{S}>',
    'SE_2_3': 'manif::SE_2_3<{S}>',
    'SGal3': 'manif::SGal3<{S}>',
    'R1': 'manif::Rn<{S},1>',
    'R3': 'manif::Rn<{S},3>',
    'R9': 'manif::Rn<{S},9>',
    'Bundle_R2_SO3_R1': 'manif::Bundle<{S},manif::R2,manif::SO3,manif::R1>',
    'Bundle_SE2_SGal3_SE_2_3': 'manif::Bundle<{S},manif::SE2,manif::SGal3,manif::SE_2_3>',
}
BASE_GROUPS = ['SO2', 'SE2', 'SO3', 'SE3', 'SE_2_3', 'SGal3', 'R1', 'R3', 'R9']
BUNDLES = ['Bundle_R2_SO3_R1', 'Bundle_SE2_SGal3_SE_2_3']
ALL_GROUPS = BASE_GROUPS + BUNDLES
SCALARS = ['double', 'float']


def lattice_units(src, groups=ALL_GROUPS, scalars=SCALARS, builds=('ndebug',), shards=None, flags=(), defs=()):
    us = []
    for g in groups:
        for s in scalars:
            for b in builds:
                name = '%s/%s' % (g, s)
                ty = GROUPS[g].format(S=s)
                d = ['VF_GROUP_TYPE=' + ty, 'VF_UNIT="%s"' % name, 'VF_SCALAR=' + s] + list(defs)
                n = 1
                if shards:
                    n = shards(g, s) if callable(shards) else shards
                us.append(Unit(name, src, defs=d, build=b, shards=n, flags=flags))
    return us


NOT_CLAIMED = {}


class Spec:
    level = 'model_checking'
    engine = 'E1-lattice'
    technique = 'explicit exhaustive enumeration of a bounded input lattice on the real code against an independent reference model'
    design_ref = 'DESIGN.md section 4'
    level_text = ''
    level_note = 'trusted: RefAlg reference model (engine/ref.cpp), g++/Eigen/libm; bounded: finite atom lattice, not the continuum'
    thorough_deadline = 2400
    assumptions = []
    explanation = ''
    rule = ''

    def units(self, tier):
        return []


COMMON_ASSUMPTIONS = [
    'the reference model RefAlg (engine/ref.cpp: documented generators, matrix series, LU, Newton) in long double is correct; it is cross-checked by its own identities in checks/selftest',
    'g++ 12 / Eigen 3.4 / glibc libm as installed; results for other compilers or -ffast-math are not claimed',
    'continuous inputs are covered on the finite atom lattice of DESIGN.md 2.4 (both sides of every branch and every cancellation zone visible in the code), not on the continuum',
]


class C02(Spec):
    design_ref = 'DESIGN.md 4/C02'
    level_text = ('every tangent of the full atom lattice (rotation magnitude on both sides of every switch-over, generic, near and beyond pi; '
                  'linear parts 0..1e6 in three directions) for every group and both scalars is exponentiated by the real code and compared with an '
                  'extended-precision matrix exponential; bounded exhaustive exploration is the right level because the property quantifies over inputs of closed-form code with data-dependent branches')
    rule = ('full Cartesian product of the tangent atom tables (rotation magnitude x direction x linear magnitude x linear direction '
            'x extra linear parts) per group and scalar; a cell is one tangent t; it is non-trivial when its rotation magnitude is non-zero '
            'and exp(t) is not the identity matrix; distinct = distinct atom keys')
    explanation = 'explicit enumeration of the bounded input lattice on the real code; oracle = extended-precision matrix exponential of sum t_i G_i'
    assumptions = COMMON_ASSUMPTIONS

    def units(self, tier):
        sh = (lambda g, s: 4 if g in ('SGal3', 'SE_2_3', 'SE3') else 1) if tier == 'thorough' else None
        return lattice_units('checks/c02.cpp', shards=sh)


class C01(Spec):
    design_ref = 'DESIGN.md 4/C01'
    level_text = ('all pairs of the reduced element lattice (both quaternion hemispheres, angles 0..pi, linear parts 0..1e6), all element x point cells and all triples of a '
                  '6-element sub-lattice are composed / inverted / applied by the real code and compared with products, LU inverses and matrix-vector products of the '
                  'documented embedding, evaluated in extended precision')
    rule = ('cells: every element X of the reduced lattice (unary: inverse, two-sided inverse, neutral identity, transform), X x 5 points (act), X x Y pairs '
            '(compose, operator*), triples (associativity); non-trivial = both rotation angles non-zero; distinct = distinct atom-key tuples')
    explanation = 'explicit enumeration of element pairs/triples on the real code; oracle = matrix product / LU inverse of the documented embedding in long double'
    assumptions = COMMON_ASSUMPTIONS

    def units(self, tier):
        sh = (lambda g, s: 8 if 'SGal3' in g else (4 if g in ('SE_2_3', 'SE3') else 1)) if tier == 'thorough' else (lambda g, s: 2 if 'SGal3' in g else 1)
        return lattice_units('checks/c01.cpp', shards=sh)


class C03(Spec):
    design_ref = 'DESIGN.md 4/C03'
    level_text = ('every element of the full lattice built three ways (reference-built coefficient vectors in both quaternion hemispheres, manif exp of every lattice tangent '
                  'below pi, manif composition chains reaching angle 2pi-delta with w<0) has its log checked for finiteness, principal range, expm(hat(log X)) = M(X), '
                  'agreement with an independent Newton matrix logarithm and hemisphere independence')
    rule = ('cells: (A) full element lattice x {w>=0, w<0}; (B) every lattice tangent with rotation < pi (round trip); (C) composition chains exp(pi u)exp((pi-d)u), '
            'cubes of exp((2pi-d)/3 u) for 7 deltas per base tangent; non-trivial = rotation angle non-zero; distinct = atom keys')
    explanation = 'explicit enumeration of the element lattice on the real code; oracle = extended-precision expm and Newton matrix logarithm'
    assumptions = COMMON_ASSUMPTIONS

    def units(self, tier):
        sh = (lambda g, s: 8 if 'SGal3' in g else (4 if g in ('SE_2_3', 'SE3') else 1)) if tier == 'thorough' else (lambda g, s: 4 if 'SGal3' in g else (2 if g in ('SE_2_3', 'SE3') else 1))
        return lattice_units('checks/c03.cpp', shards=sh)


_SPECS = {'C01': C01, 'C02': C02, 'C03': C03}


def get(prop):
    c = _SPECS.get(prop)
    return c() if c else None


def all_props():
    return sorted(_SPECS)
