// C07 / C09 (hidden state across TYPES): the lazily initialised constants of one tangent type (generators, inner weights,
// Identity, Zero, constant Jacobians) must not depend on which OTHER types were used first in the process.
// Explicit-state exploration of first-use orders: every ordered pair (A then B) of 30 tangent types runs in a fresh forked
// process; B's constants are compared with the documented tables of the reference model.
#include "adapt.hpp"
#include "report.hpp"
#include <sys/wait.h>
#include <unistd.h>
#include <functional>

#ifndef VF_PROP
#define VF_PROP "C07"
#endif

template <class G> struct Probe {
  typedef typename G::Tangent T;
  typedef typename G::Scalar S;
  // use every lazily initialised constant of the type
  static void touch() {
    volatile S sink = 0;
    sink = sink + T::InnerWeights()(0, 0);
    for (int i = 0; i < T::DoF; ++i) sink = sink + T::Generator(i)(0, 0);
    sink = sink + G::Identity().coeffs()(0) + T::Zero().coeffs()(0);
    T z = T::Zero();
    sink = sink + z.rjac()(0, 0) + z.ljac()(0, 0) + z.smallAdj()(0, 0) + G::Identity().adj()(0, 0) + z.inner(z);
    (void)sink;
  }
  // compare with the documented tables; "" if fine
  static std::string check() {
    const ref::Group& g = vf::RG<G>();
    ref::Mat W = vf::toLM(T::InnerWeights());
    if (!(W - g.innerW()).isZero(0)) return "InnerWeights() is not the Frobenius Gram matrix of the documented generators";
    for (int i = 0; i < T::DoF; ++i)
      if (!(vf::toLM(T::Generator(i)) - g.gen(i)).isZero(0)) return "Generator(" + std::to_string(i) + ") is not the documented basis matrix";
    T a, b;
    for (int i = 0; i < T::DoF; ++i) { a.coeffs()(i) = S(0.5 * (i + 1)); b.coeffs()(i) = S((i % 2) ? -1.25 : 0.75); }
    ref::Real in = (ref::Real)a.inner(b), fro = (g.hat(vf::toL(a.coeffs())).array() * g.hat(vf::toL(b.coeffs())).array()).sum();
    if (std::fabs(in - fro) > 1e-4L * std::max((ref::Real)1, std::fabs(fro))) return "a.inner(b) is not the Frobenius inner product of hat(a), hat(b)";
    ref::Real n2 = (ref::Real)a.squaredWeightedNorm(), f2 = (g.hat(vf::toL(a.coeffs())).array() * g.hat(vf::toL(a.coeffs())).array()).sum();
    if (std::fabs(n2 - f2) > 1e-4L * std::max((ref::Real)1, f2)) return "squaredWeightedNorm() is not |hat(a)|_F^2";
    if (!(vf::Mof(G::Identity()) - ref::Mat::Identity(g.N, g.N)).isZero(0)) return "Identity() is not the identity matrix";
    if (!(vf::toL(T::Zero().coeffs())).isZero(0)) return "Zero() is not zero";
    T z = T::Zero();
    ref::Mat I = ref::Mat::Identity(T::DoF, T::DoF);
    if (!(vf::toLM(z.rjac()) - I).isZero(1e-6L) || !(vf::toLM(z.ljac()) - I).isZero(1e-6L)) return "rjac/ljac of the zero tangent is not the identity";
    if (!(vf::toLM(G::Identity().adj()) - I).isZero(1e-6L)) return "adj() of the identity is not the identity";
    if (!(vf::toLM(z.smallAdj())).isZero(0)) return "smallAdj() of the zero tangent is not zero";
    return "";
  }
};

struct Entry { std::string name; std::function<void()> touch; std::function<std::string()> check; };
template <class G> Entry entry(const std::string& n) { Entry e; e.name = n; e.touch = &Probe<G>::touch; e.check = &Probe<G>::check; return e; }

int main(int argc, char** argv) {
  vf::Args a; a.parse(argc, argv);
  vf::Report R(VF_PROP, VF_UNIT, a);
  std::vector<Entry> ty;
#define BOTH(EXPR_D, EXPR_F, NAME) ty.push_back(entry<EXPR_D>(std::string(NAME) + "d")); ty.push_back(entry<EXPR_F>(std::string(NAME) + "f"));
  BOTH(manif::SO2d, manif::SO2f, "SO2") BOTH(manif::SE2d, manif::SE2f, "SE2") BOTH(manif::SO3d, manif::SO3f, "SO3") BOTH(manif::SE3d, manif::SE3f, "SE3")
  BOTH(manif::SE_2_3d, manif::SE_2_3f, "SE_2_3") BOTH(manif::SGal3d, manif::SGal3f, "SGal3")
  BOTH(manif::R1d, manif::R1f, "R1") BOTH(manif::R3d, manif::R3f, "R3") BOTH(manif::R6d, manif::R6f, "R6") BOTH(manif::R9d, manif::R9f, "R9")
  typedef manif::Rn<double, 10> R10d; typedef manif::Rn<float, 10> R10f;
  BOTH(R10d, R10f, "R10")
  typedef manif::Bundle<double, manif::R2, manif::R1> B21d; typedef manif::Bundle<float, manif::R2, manif::R1> B21f;
  typedef manif::Bundle<double, manif::SO3> BSO3d; typedef manif::Bundle<float, manif::SO3> BSO3f;
  typedef manif::Bundle<double, manif::SO2, manif::R2> BSO2R2d; typedef manif::Bundle<float, manif::SO2, manif::R2> BSO2R2f;
  typedef manif::Bundle<double, manif::SO3, manif::R3> BSO3R3d; typedef manif::Bundle<float, manif::SO3, manif::R3> BSO3R3f;
  BOTH(B21d, B21f, "Bundle<R2,R1>") BOTH(BSO3d, BSO3f, "Bundle<SO3>") BOTH(BSO2R2d, BSO2R2f, "Bundle<SO2,R2>") BOTH(BSO3R3d, BSO3R3f, "Bundle<SO3,R3>")
  const int n = (int)ty.size();
  R.product_size = (long)n * n + n;
  auto run_child = [&](const std::vector<int>& before, int target) {
    int fd[2];
    if (pipe(fd) != 0) return std::string("pipe failed");
    pid_t pid = fork();
    if (pid == 0) {
      close(fd[0]);
      std::string res;
      try { for (size_t i = 0; i < before.size(); ++i) ty[before[i]].touch(); res = ty[target].check(); } catch (std::exception& e) { res = std::string("exception: ") + e.what(); }
      if (res.empty()) res = "OK";
      ssize_t w = write(fd[1], res.data(), res.size()); (void)w;
      close(fd[1]);
      _exit(0);
    }
    close(fd[1]);
    std::string out; char buf[512]; ssize_t k;
    while ((k = read(fd[0], buf, sizeof buf)) > 0) out.append(buf, (size_t)k);
    close(fd[0]);
    int st = 0; waitpid(pid, &st, 0);
    if (!(WIFEXITED(st) && WEXITSTATUS(st) == 0)) return std::string("child died");
    return out;
  };
  for (int b = 0; b < n; ++b) {
    // alone
    if (R.mine()) {
      std::string key = "first_use/" + ty[b].name;
      if (R.want(key)) {
        std::string out = run_child(std::vector<int>(), b);
        ++R.states; ++R.transitions;
        if (!R.judge("constants_correct_when_used_first", out == "OK" ? 0 : 1, 0.5, key)) R.fail("constants_correct_when_used_first", key, 1, 0, "{" + std::string("\"message\":\"") + vf::jesc(out) + "\"}");
      }
    }
    for (int a2 = 0; a2 < n; ++a2) {
      if (a2 == b) continue;
      if (!R.mine()) continue;
      std::string key = "after/" + ty[a2].name + ";then/" + ty[b].name;
      if (!R.want(key)) continue;
      std::string out = run_child(std::vector<int>(1, a2), b);
      ++R.states; ++R.transitions; ++R.nontrivial;
      if (!R.judge("constants_independent_of_types_used_earlier", out == "OK" ? 0 : 1, 0.5, key))
        R.fail("constants_independent_of_types_used_earlier", key, 1, 0, "{" + std::string("\"message\":\"") + vf::jesc(out) + "\"}");
    }
  }
  R.sample("{\"cell\":\"after/" + ty[14].name + ";then/" + ty[4].name + "\",\"note\":\"fresh forked process: all static helpers of the first type, then the second type's constants against the documented tables\"}");
  R.write();
  return 0;
}
