// C06 — rjac/ljac, their inverses, Adj and adj satisfy their defining identities.
// Oracle: RefAlg series sum (-ad)^k/(k+1)!, LU inverse, expm(ad), conjugation M hat(s) M^-1, commutators.
#include "harness.hpp"

#ifdef VF_FN_ALL
#define ON(k) 1
#else
#define ON(k) (VF_FN == (k))
#endif

template <class G> struct C06 {
  typedef typename G::Scalar S;
  typedef typename G::Tangent T;
  typedef typename G::Jacobian J;
  typedef vf::Bars<S> B;
  vf::Report& R;
  const ref::Group& g;
  lat::Cfg cfg;
  std::vector<char> mk;
  std::set<std::string> distinct;
  const ref::Real INSIDE;
  C06(vf::Report& r) : R(r), g(vf::RG<G>()), cfg(vf::make_cfg<S>(r.args)), mk(g.rot_tangent_mask()), INSIDE(lat::PI - 1e-6L) {}

  void judgeJ(const char* name, const ref::Mat& A, const ref::Mat& E, ref::Real L, ref::Real bar, const std::string& key, const std::string& detail) {
    ref::Real d = ref::diff_jac(A, E, mk, mk, L);
    ++R.transitions;
    if (!R.judge(name, d, bar, key))
      R.fail(name, std::string(name) + "/" + key, d, bar, detail + "," + vf::kv("manif", vf::decmat(A)) + "," + vf::kv("ref", vf::decmat(E)) + "," + vf::kv("L", vf::jnum(L)) + "}");
  }

  void judgeP(const char* name, const ref::Mat& X, const ref::Mat& Y, const ref::Mat& E, ref::Real L, ref::Real bar, const std::string& key, const std::string& detail) {
    ref::Real d = ref::diff_prod(X, Y, E, mk, mk, L);
    ++R.transitions;
    if (!R.judge(name, d, bar, key))
      R.fail(name, std::string(name) + "/" + key, d, bar, detail + "," + vf::kv("manif", vf::decmat(ref::Mat(X * Y))) + "," + vf::kv("ref", vf::decmat(E)) + "," + vf::kv("L", vf::jnum(L)) + "}");
  }

  std::string decade(ref::Real th) {
    if (th == 0) return "theta=0";
    int d = (int)std::floor(std::log10((double)th));
    char b[32]; snprintf(b, sizeof b, "theta_decade_1e%d", d);
    return b;
  }

  void tangent_cell(const lat::TAtom& a) {
    T t = vf::make_tan<T>(a.t);
    ref::Vec tl = vf::toL(t.coeffs());
    ++R.states;
    std::string dt = "{" + vf::kv("t", vf::hexvec(t.coeffs())) + "," + vf::kv("t_dec", vf::decvec(t.coeffs()));
    ref::Real L = a.lin;
    const ref::Mat I = ref::Mat::Identity(g.DoF, g.DoF);
#if ON(1)
    ref::Mat Jr = g.Jr(tl), Jl = g.Jr(-tl);
    ref::Mat mJr = vf::toLM(t.rjac()), mJl = vf::toLM(t.ljac());
    ref::Mat mJri = vf::toLM(t.rjacinv()), mJli = vf::toLM(t.ljacinv());
    judgeJ("rjac_is_series", mJr, Jr, L, B::B4, a.key, dt);
    judgeJ("ljac_is_series_of_minus_t", mJl, Jl, L, B::B4, a.key, dt);
    judgeJ("ljac_is_rjac_of_minus_t", mJl, vf::toLM((-t).rjac()), L, B::B4, a.key, dt);
    judgeP("rjacinv_times_rjac_is_I", mJri, mJr, I, L, B::B4, a.key, dt);
    judgeP("ljacinv_times_ljac_is_I", mJli, mJl, I, L, B::B4, a.key, dt);
    judgeJ("rjacinv_is_inverse_of_series", mJri, ref::inverse_equilibrated(Jr), L, B::B4, a.key, dt);
    judgeJ("ljacinv_is_inverse_of_series", mJli, ref::inverse_equilibrated(Jl), L, B::B4, a.key, dt);
    // Adj(exp t) = expm(ad_t) = ljac * rjacinv
    ref::Mat Ead = ref::expm(g.ad(tl));
    ref::Real La = std::max(L, g.lin_scale_M(g.exp(tl)));
    judgeJ("Adj_exp_t_is_expm_ad_t", vf::toLM(t.exp().adj()), Ead, La, B::B4, a.key, dt);
    judgeP("ljac_rjacinv_is_expm_ad_t", mJl, mJri, Ead, La, B::B4, a.key, dt);
    // per-decade residual profile of rjacinv (so that a collapse just above the switch-over shows as a spike)
    {
      ref::Real d = ref::diff_jac(mJri, ref::inverse_equilibrated(Jr), mk, mk, L);
      std::string k = "profile:rjacinv_resid_over_bar@" + decade(a.theta);
      double ratio = (double)(d / B::B4);
      std::map<std::string, double>::iterator it = R.max_ratio.find(k);
      if (it == R.max_ratio.end() || ratio > it->second) { R.max_ratio[k] = ratio; R.max_ratio_key[k] = a.key; }
    }
#endif
#if ON(2)
    judgeJ("smallAdj_is_ad", vf::toLM(t.smallAdj()), g.ad(tl), L, B::B1, a.key, dt);
#endif
    if (a.theta != 0 && distinct.insert(a.key).second) ++R.nontrivial;
  }

  void element_cell(const lat::XAtom& xa) {
#if ON(1)
    G X = vf::make_elem<G>(xa.c);
    ref::Mat Mx = vf::Mof(X);
    ++R.states;
    std::string dx = "{" + vf::kv("X", vf::hexvec(X.coeffs())) + "," + vf::kv("X_dec", vf::decvec(X.coeffs()));
    ref::Real L = g.lin_scale_M(Mx.cwiseAbs() * g.inv(Mx).cwiseAbs());
    judgeJ("adj_is_conjugation", vf::toLM(X.adj()), g.Adj(Mx), L, B::B1, xa.key, dx);
    if (xa.theta != 0 && distinct.insert("X:" + xa.key).second) ++R.nontrivial;
#endif
  }

  void pair_cell(const lat::XAtom& xa, const lat::XAtom& ya) {
#if ON(1)
    std::string key = xa.key + "*" + ya.key;
    if (!R.want(key)) return;
    G X = vf::make_elem<G>(xa.c), Y = vf::make_elem<G>(ya.c);
    ++R.states;
    ref::Mat Mx = vf::Mof(X), My = vf::Mof(Y);
    ref::Real L = g.lin_scale_M((Mx.cwiseAbs() * My.cwiseAbs()) * (g.inv(My).cwiseAbs() * g.inv(Mx).cwiseAbs()));
    ref::Mat lhs = vf::toLM((X * Y).adj());
    ref::Mat rhs = vf::toLM(X.adj()) * vf::toLM(Y.adj());
    judgeJ("Adj_XY_is_AdjX_AdjY", lhs, rhs, L, 4 * B::B1, key, "{" + vf::kv("X", vf::hexvec(X.coeffs())) + "," + vf::kv("Y", vf::hexvec(Y.coeffs())));
    judgeJ("Adj_XY_is_ref", lhs, g.Adj(Mx * My), L, 4 * B::B1, key, "{" + vf::kv("X", vf::hexvec(X.coeffs())) + "," + vf::kv("Y", vf::hexvec(Y.coeffs())));
#endif
  }

  void run() {
    std::vector<lat::TAtom> ts = lat::tangents(g, cfg, lat::FULL, INSIDE);
    std::vector<lat::XAtom> xs = lat::elements(g, cfg, lat::FULL);
    std::vector<lat::XAtom> xr = lat::elements(g, cfg, lat::REDUCED), xt = lat::elements(g, cfg, lat::TINY), xp;
    size_t stride = std::max<size_t>(1, xr.size() / (cfg.thorough ? 400 : 80));
    if (stride > 1 && stride % 2 == 0) ++stride;
    for (size_t i = 0; i < xr.size(); i += stride) xp.push_back(xr[i]);
    R.product_size = (long)ts.size() + (long)xs.size() + (long)xp.size() * (long)xt.size();
    for (size_t i = 0; i < ts.size(); ++i) {
      if (!R.mine()) continue;
      if (!R.want(ts[i].key)) continue;
      tangent_cell(ts[i]);
      if (i == ts.size() / 3) R.sample("{" + vf::kv("cell", vf::q("rjac..smallAdj/" + ts[i].key)) + "," + vf::kv("t", vf::decvec(ts[i].t)) + "}");
    }
    for (size_t i = 0; i < xs.size(); ++i) {
      if (!R.mine()) continue;
      if (!R.want(xs[i].key)) continue;
      element_cell(xs[i]);
      if (i == xs.size() / 3) R.sample("{" + vf::kv("cell", vf::q("adj/" + xs[i].key)) + "," + vf::kv("X", vf::decvec(xs[i].c)) + "}");
    }
    for (size_t i = 0; i < xp.size(); ++i)
      for (size_t j = 0; j < xt.size(); ++j)
        if (R.mine()) pair_cell(xp[i], xt[j]);
  }
};

template <class G> void run_c06(vf::Report& R) { C06<G> c(R); c.run(); }
VF_MAIN("C06", run_c06)
