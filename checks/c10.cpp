// C10 — views over external memory behave exactly like owning objects.
// Matrix: operation x operand kinds {owning, Map, Map<const>}^arity x buffer placement x input.
// Buffers live between PROT_NONE guard pages (a read or write past either end faults and is attributed to the cell)
// and are surrounded by canary bytes inside the data page (a stray write inside the page is seen).
#include "harness.hpp"
#include <setjmp.h>
#include <signal.h>
#include <sys/mman.h>
#include <unistd.h>

#ifdef VF_FN_ALL
#define ON(k) 1
#else
#define ON(k) (VF_FN == (k))
#endif

static sigjmp_buf g_jmp;
static volatile sig_atomic_t g_armed = 0;
static void on_segv(int) { if (g_armed) siglongjmp(g_jmp, 1); _exit(139); }

// one buffer of n scalars with a chosen placement inside a guarded data page
template <class S> struct Guarded {
  static const size_t PG = 4096;
  unsigned char* base;  // 3 pages: guard | data | guard
  S* p;
  int n;
  // placement 0: 16-byte aligned, mid page; 1: sizeof(S) past a 16-byte boundary, mid page; 2: flush with the end of the page; 3: flush with its start
  Guarded(int n_, int placement) : n(n_) {
    base = (unsigned char*)mmap(nullptr, 3 * PG, PROT_READ | PROT_WRITE, MAP_PRIVATE | MAP_ANONYMOUS, -1, 0);
    if (base == MAP_FAILED) { perror("mmap"); _exit(4); }
    mprotect(base, PG, PROT_NONE);
    mprotect(base + 2 * PG, PG, PROT_NONE);
    unsigned char* page = base + PG;
    memset(page, 0xA5, PG);
    size_t bytes = sizeof(S) * (size_t)n;
    size_t off;
    switch (placement) {
      case 0: off = 1024; break;
      case 1: off = 1024 + sizeof(S); break;
      case 2: off = PG - bytes; break;
      default: off = 0; break;
    }
    p = (S*)(page + off);
  }
  ~Guarded() { munmap(base, 3 * PG); }
  bool canaries_intact() const {
    const unsigned char* page = base + PG;
    const unsigned char* b = (const unsigned char*)p;
    const unsigned char* e = b + sizeof(S) * (size_t)n;
    for (const unsigned char* q = page; q < b; ++q) if (*q != 0xA5) return false;
    for (const unsigned char* q = e; q < page + PG; ++q) if (*q != 0xA5) return false;
    return true;
  }
  Guarded(const Guarded&) = delete;
};

template <class T, class = void> struct has_normalize : std::false_type {};
template <class T> struct has_normalize<T, decltype(std::declval<T&>().normalize(), void())> : std::true_type {};

template <class G> struct C10 {
  typedef typename G::Scalar S;
  typedef typename G::Tangent T;
  typedef typename G::Jacobian J;
  typedef typename G::Vector P;
  typedef Eigen::Map<G> MG;
  typedef Eigen::Map<const G> CG;
  typedef Eigen::Map<T> MT;
  typedef Eigen::Map<const T> CT;
  typedef vf::Bars<S> B;
  vf::Report& R;
  const ref::Group& g;
  lat::Cfg cfg;
  C10(vf::Report& r) : R(r), g(vf::RG<G>()), cfg(vf::make_cfg<S>(r.args)) {}

  std::string cur;  // current cell key
  template <class A, class Bm> void same(const char* op, const Eigen::MatrixBase<A>& got, const Eigen::MatrixBase<Bm>& own) {
    bool eq = vf::bits_equal(got, own);
    if (eq) R.count("bit_identical_to_owning");
    else R.count("not_bit_identical_to_owning");
    ref::Real d = eq ? 0 : (ref::Real)vf::maxabs((got - own)) / std::max((ref::Real)1, (ref::Real)vf::maxabs(own));
    if (!(d == d)) d = INFINITY;
    ++R.transitions;
    std::string k = std::string(op) + "/" + cur;
    // the bar belongs to the scalar type of the RESULT (cast<double>() of a float view is judged at double precision)
    const double bar1 = (double)vf::Bars<typename A::Scalar>::B1;
    if (!R.judge("view_result_equals_owning_result", d, bar1, k))
      R.fail("view_result_equals_owning_result", k, d, bar1, "{" + vf::kv("view", vf::decmat(got)) + "," + vf::kv("owning", vf::decmat(own)) + "}");
  }
  void expect(bool ok, const char* check, const char* op) {
    ++R.transitions;
    std::string k = std::string(op) + "/" + cur;
    if (!R.judge(check, ok ? 0 : 1, 0.5, k)) R.fail(check, k, 1, 0, "{}");
  }

  // all read-only operations through (possibly view) operands, compared with the owning computation
  template <class XA, class YA, class TA, class SA>
  void reads(const XA& X, const YA& Y, const TA& t, const SA& s, const G& Xo, const G& Yo, const T& to, const T& so, const P& p) {
    J ja, jb, ka, kb;
    same("inverse", X.inverse(ja).coeffs(), Xo.inverse(ka).coeffs()); same("inverse.J", ja, ka);
    same("log", X.log(ja).coeffs(), Xo.log(ka).coeffs()); same("log.J", ja, ka);
    same("compose", X.compose(Y, ja, jb).coeffs(), Xo.compose(Yo, ka, kb).coeffs()); same("compose.Ja", ja, ka); same("compose.Jb", jb, kb);
    same("between", X.between(Y, ja, jb).coeffs(), Xo.between(Yo, ka, kb).coeffs()); same("between.Ja", ja, ka);
    same("rplus", X.rplus(t, ja, jb).coeffs(), Xo.rplus(to, ka, kb).coeffs()); same("rplus.Jb", jb, kb);
    same("lplus", X.lplus(t, ja, jb).coeffs(), Xo.lplus(to, ka, kb).coeffs()); same("lplus.Jb", jb, kb);
    same("plus", X.plus(t).coeffs(), Xo.plus(to).coeffs());
    same("rminus", X.rminus(Y, ja, jb).coeffs(), Xo.rminus(Yo, ka, kb).coeffs()); same("rminus.Ja", ja, ka); same("rminus.Jb", jb, kb);
    same("lminus", X.lminus(Y, ja, jb).coeffs(), Xo.lminus(Yo, ka, kb).coeffs()); same("lminus.Ja", ja, ka); same("lminus.Jb", jb, kb);
    same("minus", X.minus(Y).coeffs(), Xo.minus(Yo).coeffs());
    same("X+t", (X + t).coeffs(), (Xo + to).coeffs());
    same("X-Y", (X - Y).coeffs(), (Xo - Yo).coeffs());
    same("X*Y", (X * Y).coeffs(), (Xo * Yo).coeffs());
    same("t+X", (t + G(X)).coeffs(), (to + Xo).coeffs());
    { Eigen::Matrix<S, G::Dim, G::DoF> a, b; Eigen::Matrix<S, G::Dim, G::Dim> c, d;
      same("act", X.act(p, a, c), Xo.act(p, b, d)); same("act.Jm", a, b); same("act.Jv", c, d); }
    same("adj", X.adj(), Xo.adj());
    expect(X.isApprox(Y) == Xo.isApprox(Yo), "view_predicate_equals_owning", "isApprox");
    expect((X == Y) == (Xo == Yo), "view_predicate_equals_owning", "operator==");
    same("coeffs", X.coeffs(), Xo.coeffs());
    { bool ok = true; for (int i = 0; i < G::RepSize; ++i) ok = ok && X[i] == Xo[i]; expect(ok, "view_predicate_equals_owning", "operator[]"); }
    expect(X.size() == Xo.size(), "view_predicate_equals_owning", "size");
    typedef typename std::conditional<std::is_same<S, double>::value, float, double>::type O;
    same("cast", X.template cast<O>().coeffs(), Xo.template cast<O>().coeffs());
    // tangent side
    same("exp", t.exp(ja).coeffs(), to.exp(ka).coeffs()); same("exp.J", ja, ka);
    same("hat", t.hat(), to.hat());
    same("rjac", t.rjac(), to.rjac()); same("ljac", t.ljac(), to.ljac());
    same("rjacinv", t.rjacinv(), to.rjacinv()); same("ljacinv", t.ljacinv(), to.ljacinv());
    same("smallAdj", t.smallAdj(), to.smallAdj());
    { S a = t.inner(s), b = to.inner(so); expect(memcmp(&a, &b, sizeof a) == 0, "view_predicate_equals_owning", "inner"); }
    { S a = t.weightedNorm(), b = to.weightedNorm(); expect(memcmp(&a, &b, sizeof a) == 0, "view_predicate_equals_owning", "weightedNorm"); }
    { S a = t.squaredWeightedNorm(), b = to.squaredWeightedNorm(); expect(memcmp(&a, &b, sizeof a) == 0, "view_predicate_equals_owning", "squaredWeightedNorm"); }
    same("t+s", (t + s).coeffs(), (to + so).coeffs());
    same("t-s", (t - s).coeffs(), (to - so).coeffs());
    same("-t", (-t).coeffs(), (-to).coeffs());
    same("t*2.5", (t * S(2.5)).coeffs(), (to * S(2.5)).coeffs());
    same("2.5*t", (S(2.5) * t).coeffs(), (S(2.5) * to).coeffs());
    same("t/2.5", (t / S(2.5)).coeffs(), (to / S(2.5)).coeffs());
    same("t.plus(s)", t.plus(s).coeffs(), to.plus(so).coeffs());
    same("t.minus(s)", t.minus(s).coeffs(), to.minus(so).coeffs());
    same("t.rplus(X)", t.rplus(G(X)).coeffs(), to.rplus(Xo).coeffs());
    same("t.lplus(X)", t.lplus(G(X)).coeffs(), to.lplus(Xo).coeffs());
    expect(t.isApprox(s) == to.isApprox(so), "view_predicate_equals_owning", "t.isApprox");
    expect((t == s) == (to == so), "view_predicate_equals_owning", "t==s");
    same("t.coeffs", t.coeffs(), to.coeffs());
    same("t.cast", t.template cast<O>().coeffs(), to.template cast<O>().coeffs());
    same("generator(0)", t.generator(0), to.generator(0));
    same("innerWeights", t.innerWeights(), to.innerWeights());
#if ON(2)
    same("t.bracket(s)", t.bracket(s).coeffs(), to.bracket(so).coeffs());
    same("Bracket(T(t),s)", T::Bracket(T(t), s).coeffs(), T::Bracket(to, so).coeffs());
#endif
#if ON(3)
    { J Jm = to.rjac(); same("J*t", (Jm * t).coeffs(), (Jm * to).coeffs()); }
#endif
  }

  template <class X> typename std::enable_if<has_normalize<X>::value>::type do_normalize(X& x, G& own) { x.normalize(); own.normalize(); }
  template <class X> typename std::enable_if<!has_normalize<X>::value>::type do_normalize(X&, G&) {}

  // mutations through a mutable view: exactly the viewed scalars change, and they equal the owning result
  void writes(int placement, const G& Xo, const G& Yo, const T& to, const T& so) {
    struct W { const char* name; std::function<void(MG&, G&)> f; };
    std::vector<W> ws;
    Guarded<S> srcY(G::RepSize, (placement + 2) % 4), srcS(T::DoF, (placement + 1) % 4);
    ws.push_back(W{"assign_from_owning", [&](MG& m, G& o) { m = Yo; o = Yo; }});
    ws.push_back(W{"assign_from_MapConst", [&](MG& m, G& o) { CG c(Yo.data()); m = c; o = Yo; }});
    ws.push_back(W{"assign_from_Map", [&](MG& m, G& o) { G tmp = Yo; MG c(tmp.data()); m = c; o = Yo; }});
    // sources that are themselves views over guarded user buffers (lvalue, rvalue temporary, std::move): the source must only be read
    ws.push_back(W{"assign_from_guarded_Map_lvalue", [&](MG& m, G& o) { MG c(srcY.p); m = c; o = Yo; }});
    ws.push_back(W{"assign_from_guarded_Map_temporary", [&](MG& m, G& o) { m = MG(srcY.p); o = Yo; }});
    ws.push_back(W{"move_assign_from_guarded_Map", [&](MG& m, G& o) { MG c(srcY.p); m = std::move(c); o = Yo; }});
    ws.push_back(W{"assign_from_guarded_MapConst", [&](MG& m, G& o) { const CG c(srcY.p); m = c; o = Yo; }});
    ws.push_back(W{"assign_from_eigen_vector", [&](MG& m, G& o) { typename G::DataType v = Yo.coeffs(); m = v; o = v; }});
    ws.push_back(W{"move_assign_from_owning", [&](MG& m, G& o) { G tmp = Yo; m = std::move(tmp); o = Yo; }});
    ws.push_back(W{"assign_from_rvalue_result", [&](MG& m, G& o) { m = Xo * Yo; o = Xo * Yo; }});
    ws.push_back(W{"setIdentity", [&](MG& m, G& o) { m.setIdentity(); o.setIdentity(); }});
    ws.push_back(W{"setRandom(seed 9)", [&](MG& m, G& o) { srand(9); m.setRandom(); srand(9); o.setRandom(); }});
    ws.push_back(W{"+=t", [&](MG& m, G& o) { m += to; o += to; }});
    ws.push_back(W{"+=MapConst_t", [&](MG& m, G& o) { CT c(to.data()); m += c; o += to; }});
    ws.push_back(W{"*=Y", [&](MG& m, G& o) { m *= Yo; o *= Yo; }});
    ws.push_back(W{"*=MapConst_Y", [&](MG& m, G& o) { CG c(Yo.data()); m *= c; o *= Yo; }});
    ws.push_back(W{"normalize", [&](MG& m, G& o) { do_normalize(m, o); }});
    ws.push_back(W{"coeffs()_write", [&](MG& m, G& o) { m.coeffs() = Yo.coeffs(); o.coeffs() = Yo.coeffs(); }});
    ws.push_back(W{"operator[]_write", [&](MG& m, G& o) { for (int i = 0; i < G::RepSize; ++i) { m[i] = Yo[i]; o[i] = Yo[i]; } }});
    ws.push_back(W{"data()_write", [&](MG& m, G& o) { for (int i = 0; i < G::RepSize; ++i) { m.data()[i] = Yo.data()[i]; o.data()[i] = Yo.data()[i]; } }});
    for (size_t w = 0; w < ws.size(); ++w) {
      std::string k = std::string("write:") + ws[w].name;
      if (!R.want(k + "/" + cur)) continue;
      for (int i = 0; i < G::RepSize; ++i) srcY.p[i] = Yo.coeffs()(i);
      Guarded<S> buf(G::RepSize, placement);
      for (int i = 0; i < G::RepSize; ++i) buf.p[i] = Xo.coeffs()(i);
      G own = Xo;
      bool faulted = false;
      g_armed = 1;
      if (sigsetjmp(g_jmp, 1) == 0) { MG m(buf.p); ws[w].f(m, own); }
      else faulted = true;
      g_armed = 0;
      expect(!faulted, "no_access_outside_the_viewed_buffer", k.c_str());
      if (faulted) continue;
      expect(buf.canaries_intact(), "write_changes_exactly_the_viewed_scalars", k.c_str());
      Eigen::Map<const typename G::DataType> now(buf.p);
      expect(vf::bits_equal(now, own.coeffs()), "view_write_equals_owning_result", k.c_str());
      Eigen::Map<const typename G::DataType> src_now(srcY.p);
      expect(vf::bits_equal(src_now, Yo.coeffs()) && srcY.canaries_intact(), "source_view_buffer_only_read", k.c_str());
      ++R.states;
    }
    // tangent views
    struct WT { const char* name; std::function<void(MT&, T&)> f; };
    std::vector<WT> wt;
    wt.push_back(WT{"t_assign_from_owning", [&](MT& m, T& o) { m = so; o = so; }});
    wt.push_back(WT{"t_assign_from_MapConst", [&](MT& m, T& o) { CT c(so.data()); m = c; o = so; }});
    wt.push_back(WT{"t_assign_from_eigen_vector", [&](MT& m, T& o) { typename T::DataType v = so.coeffs(); m = v; o = v; }});
    wt.push_back(WT{"t_move_assign", [&](MT& m, T& o) { T tmp = so; m = std::move(tmp); o = so; }});
    wt.push_back(WT{"t_assign_from_guarded_Map_lvalue", [&](MT& m, T& o) { MT c(srcS.p); m = c; o = so; }});
    wt.push_back(WT{"t_assign_from_guarded_Map_temporary", [&](MT& m, T& o) { m = MT(srcS.p); o = so; }});
    wt.push_back(WT{"t_move_assign_from_guarded_Map", [&](MT& m, T& o) { MT c(srcS.p); m = std::move(c); o = so; }});
    wt.push_back(WT{"t_assign_from_guarded_MapConst", [&](MT& m, T& o) { const CT c(srcS.p); m = c; o = so; }});
    wt.push_back(WT{"t_setZero", [&](MT& m, T& o) { m.setZero(); o.setZero(); }});
    wt.push_back(WT{"t_setRandom(seed 9)", [&](MT& m, T& o) { srand(9); m.setRandom(); srand(9); o.setRandom(); }});
    wt.push_back(WT{"t+=s", [&](MT& m, T& o) { m += so; o += so; }});
    wt.push_back(WT{"t-=s", [&](MT& m, T& o) { m -= so; o -= so; }});
    wt.push_back(WT{"t+=vector", [&](MT& m, T& o) { m += so.coeffs(); o += so.coeffs(); }});
    wt.push_back(WT{"t*=2.5", [&](MT& m, T& o) { m *= S(2.5); o *= S(2.5); }});
    wt.push_back(WT{"t/=2.5", [&](MT& m, T& o) { m /= S(2.5); o /= S(2.5); }});
    wt.push_back(WT{"t_setVee", [&](MT& m, T& o) { m.setVee(so.hat()); o.setVee(so.hat()); }});
    wt.push_back(WT{"t_operator[]_write", [&](MT& m, T& o) { for (int i = 0; i < T::DoF; ++i) { m[i] = so[i]; o[i] = so[i]; } }});
    wt.push_back(WT{"t_comma_initialiser", [&](MT& m, T& o) { m.coeffs() = so.coeffs(); o.coeffs() = so.coeffs(); }});
    for (size_t w = 0; w < wt.size(); ++w) {
      std::string k = std::string("write:") + wt[w].name;
      if (!R.want(k + "/" + cur)) continue;
      for (int i = 0; i < T::DoF; ++i) srcS.p[i] = so.coeffs()(i);
      Guarded<S> buf(T::DoF, placement);
      for (int i = 0; i < T::DoF; ++i) buf.p[i] = to.coeffs()(i);
      T own = to;
      bool faulted = false;
      g_armed = 1;
      if (sigsetjmp(g_jmp, 1) == 0) { MT m(buf.p); wt[w].f(m, own); }
      else faulted = true;
      g_armed = 0;
      expect(!faulted, "no_access_outside_the_viewed_buffer", k.c_str());
      if (faulted) continue;
      expect(buf.canaries_intact(), "write_changes_exactly_the_viewed_scalars", k.c_str());
      Eigen::Map<const typename T::DataType> now(buf.p);
      expect(vf::bits_equal(now, own.coeffs()), "view_write_equals_owning_result", k.c_str());
      Eigen::Map<const typename T::DataType> src_now(srcS.p);
      expect(vf::bits_equal(src_now, so.coeffs()) && srcS.canaries_intact(), "source_view_buffer_only_read", k.c_str());
      ++R.states;
    }
  }

  void copies(const G& Xo, const T& to) {
    // copy, move and cross-kind construction / assignment preserve coefficients exactly; a copied Map aliases the same buffer
    Guarded<S> b1(G::RepSize, 2), b2(G::RepSize, 3);
    for (int i = 0; i < G::RepSize; ++i) { b1.p[i] = Xo.coeffs()(i); b2.p[i] = S(0); }
    MG m1(b1.p);
    MG m1c(m1);
    expect(m1c.data() == m1.data(), "copied_Map_aliases_same_buffer", "copy");
    CG c1(b1.p);
    G o1(m1), o2(c1), o3 = m1, o4; o4 = c1;
    G o5(std::move(G(Xo)));
    expect(vf::bits_equal(o1.coeffs(), Xo.coeffs()) && vf::bits_equal(o2.coeffs(), Xo.coeffs()) && vf::bits_equal(o3.coeffs(), Xo.coeffs()) &&
               vf::bits_equal(o4.coeffs(), Xo.coeffs()) && vf::bits_equal(o5.coeffs(), Xo.coeffs()), "cross_kind_copy_preserves_coefficients", "copy");
    MG m2(b2.p);
    m2 = m1;
    Eigen::Map<const typename G::DataType> now(b2.p);
    expect(vf::bits_equal(now, Xo.coeffs()) && b2.canaries_intact() && b1.canaries_intact(), "cross_kind_copy_preserves_coefficients", "Map=Map");
    Guarded<S> t1(T::DoF, 2);
    for (int i = 0; i < T::DoF; ++i) t1.p[i] = to.coeffs()(i);
    MT mt(t1.p); CT ct(t1.p);
    T q1(mt), q2(ct), q3; q3 = ct;
    expect(vf::bits_equal(q1.coeffs(), to.coeffs()) && vf::bits_equal(q2.coeffs(), to.coeffs()) && vf::bits_equal(q3.coeffs(), to.coeffs()), "cross_kind_copy_preserves_coefficients", "tangent copy");
    ++R.states;
  }

  void run() {
    struct sigaction sa; memset(&sa, 0, sizeof sa); sa.sa_handler = on_segv; sigemptyset(&sa.sa_mask); sa.sa_flags = SA_NODEFER;
    sigaction(SIGSEGV, &sa, nullptr); sigaction(SIGBUS, &sa, nullptr);
    std::vector<lat::XAtom> xs = lat::thin(lat::elements(g, cfg, lat::TINY), cfg.thorough ? 12 : 3, R.args.seed);
    std::vector<lat::TAtom> ts = lat::thin(lat::tangents(g, cfg, lat::TINY), cfg.thorough ? 6 : 2, R.args.seed);
    P p; for (int i = 0; i < G::Dim; ++i) p(i) = S(0.25 * (i + 1) * ((i % 2) ? -1 : 1));
    const char* kn[3] = {"owning", "Map", "MapConst"};
    R.product_size = (long)xs.size() * ts.size() * 4 * 10;
    {
      // copy / move / cross-kind construction over the WHOLE reduced element lattice (not the thinned one: copies are cheap) and, for
      // each element, over coefficient vectors pushed to both edges of the norm acceptance band — a copy that re-normalises
      // (seed C10c) is bit-exact on data whose computed norm happens to be exactly 1 and on nothing else
      std::vector<lat::XAtom> xall = lat::elements(g, cfg, lat::REDUCED);
      const T t0 = vf::make_tan<T>(ts[0].t);
      std::vector<char> rc = g.rot_coeff_mask();
      for (size_t i = 0; i < xall.size(); ++i) {
        if (!R.mine()) continue;
        for (int band = 0; band < 3; ++band) {
          typename G::DataType c = vf::make_elem<G>(xall[i].c).coeffs();
          const S f = band == 0 ? S(1) : (band == 1 ? S(1) + S(0.4L * cfg.eps) : S(1) - S(0.4L * cfg.eps));
          for (int k = 0; k < G::RepSize; ++k) if (rc[k]) c(k) *= f;
          G Xo; Xo.coeffs() = c;
          cur = "copies;" + xall[i].key + (band == 0 ? "" : (band == 1 ? ",band=+0.4eps" : ",band=-0.4eps"));
          if (!R.want(cur)) continue;
          copies(Xo, t0);
        }
      }
    }
    for (size_t i = 0; i < xs.size(); ++i)
      for (size_t j = 0; j < ts.size(); ++j)
        for (int pl = 0; pl < 4; ++pl) {
          const G Xo = vf::make_elem<G>(xs[i].c), Yo = vf::make_elem<G>(xs[(i + 1) % xs.size()].c);
          const T to = vf::make_tan<T>(ts[j].t), so = vf::make_tan<T>(ts[(j + 1) % ts.size()].t);
          std::string in = "placement=" + std::to_string(pl) + ";" + xs[i].key + ";" + ts[j].key;
          // operand buffers
          Guarded<S> bx(G::RepSize, pl), by(G::RepSize, (pl + 1) % 4), bt(T::DoF, pl), bs(T::DoF, (pl + 2) % 4);
          for (int k = 0; k < G::RepSize; ++k) { bx.p[k] = Xo.coeffs()(k); by.p[k] = Yo.coeffs()(k); }
          for (int k = 0; k < T::DoF; ++k) { bt.p[k] = to.coeffs()(k); bs.p[k] = so.coeffs()(k); }
          MG mx(bx.p), my(by.p); CG cx(bx.p), cy(by.p); MT mt(bt.p), ms(bs.p); CT ct(bt.p), cs(bs.p);
          // operand kinds: the 9 rows of the orthogonal array L9(3^4).  Every operation takes at most two of the four operands,
          // and an orthogonal array of strength 2 contains every pair of kinds for every pair of positions: the full
          // {owning, Map, Map<const>}^arity matrix of every operation is covered with 9 instantiations instead of 81.
          static const int L9[9][4] = {{0,0,0,0},{0,1,1,2},{0,2,2,1},{1,0,1,1},{1,1,2,0},{1,2,0,2},{2,0,2,2},{2,1,0,1},{2,2,1,0}};
          for (int row = 0; row < 9; ++row) {
            const int kx = L9[row][0], ky = L9[row][1], kt = L9[row][2], ks = L9[row][3];
            if (!R.mine()) continue;
            cur = std::string("X=") + kn[kx] + ",Y=" + kn[ky] + ",t=" + kn[kt] + ",s=" + kn[ks] + ";" + in;
            if (!R.args.replay.empty() && R.args.replay.find(cur) == std::string::npos) continue;
            ++R.states;
            if (row && xs[i].theta != 0) ++R.nontrivial;
            bool faulted = false;
            g_armed = 1;
            if (sigsetjmp(g_jmp, 1) == 0) {
              switch (row) {
                case 0: reads(Xo, Yo, to, so, Xo, Yo, to, so, p); break;
                case 1: reads(Xo, my, mt, cs, Xo, Yo, to, so, p); break;
                case 2: reads(Xo, cy, ct, ms, Xo, Yo, to, so, p); break;
                case 3: reads(mx, Yo, mt, ms, Xo, Yo, to, so, p); break;
                case 4: reads(mx, my, ct, so, Xo, Yo, to, so, p); break;
                case 5: reads(mx, cy, to, cs, Xo, Yo, to, so, p); break;
                case 6: reads(cx, Yo, ct, cs, Xo, Yo, to, so, p); break;
                case 7: reads(cx, my, to, ms, Xo, Yo, to, so, p); break;
                case 8: reads(cx, cy, mt, so, Xo, Yo, to, so, p); break;
              }
            } else faulted = true;
            g_armed = 0;
            expect(!faulted, "no_access_outside_the_viewed_buffer", "reads");
            expect(bx.canaries_intact() && by.canaries_intact() && bt.canaries_intact() && bs.canaries_intact(), "reads_do_not_write", "reads");
            // operands unchanged
            Eigen::Map<const typename G::DataType> nx(bx.p), ny(by.p);
            expect(vf::bits_equal(nx, Xo.coeffs()) && vf::bits_equal(ny, Yo.coeffs()), "reads_do_not_write", "operands");
          }
          if (R.mine()) { cur = in; writes(pl, Xo, Yo, to, so); if (pl == 0) copies(Xo, to); }
          if (i == 0 && j == 0 && pl == 2) R.sample("{" + vf::kv("cell", vf::q("all operations/X=Map,Y=MapConst,t=Map,s=owning;" + in)) + "," + vf::kv("X", vf::decvec(Xo.coeffs())) + "}");
        }
  }
};

template <class G> void run_c10(vf::Report& R) { C10<G> c(R); c.run(); }
VF_MAIN("C10", run_c10)
