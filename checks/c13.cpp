// C13 — construction, accessors and conversions are consistent and validated.
// Group specific (VF_KIND): 1 SO2, 2 SE2, 3 SO3, 4 SE3, 5 SE_2_3, 6 SGal3, 7 Rn, 8 Bundle.
// Built twice: assertions enabled (validation must reject |kappa| >= 1.1 and accept |kappa| <= 0.9) and NDEBUG (nothing throws).
#include "harness.hpp"

#ifdef NDEBUG
static const bool ASSERTS = false;
#else
static const bool ASSERTS = true;
#endif

template <class G> struct C13 {
  typedef typename G::Scalar S;
  typedef typename G::Tangent T;
  typedef vf::Bars<S> B;
  typedef Eigen::Matrix<S, 3, 1> V3;
  typedef Eigen::Matrix<S, 2, 1> V2;
  typedef Eigen::Quaternion<S> Q;
  vf::Report& R;
  const ref::Group& g;
  lat::Cfg cfg;
  std::set<std::string> distinct;
  C13(vf::Report& r) : R(r), g(vf::RG<G>()), cfg(vf::make_cfg<S>(r.args)) {}

  void expect(bool ok, const char* check, const std::string& key, const std::string& detail = "{}") {
    ++R.transitions;
    if (!R.judge(check, ok ? 0 : 1, 0.5, key)) R.fail(check, std::string(check) + "/" + key, 1, 0, detail);
  }
  void close(ref::Real d, ref::Real bar, const char* check, const std::string& key, const std::string& detail = "{}") {
    if (!(d == d)) d = INFINITY;
    ++R.transitions;
    if (!R.judge(check, d, bar, key)) R.fail(check, std::string(check) + "/" + key, d, bar, detail);
  }

  // ---- generic checks on a freshly constructed element whose documented matrix is Mref
  void check_matrix(const G& X, const ref::Mat& Mref, const std::string& key) {
    ++R.states;
    ref::Mat Mx = vf::Mof(X);
    ref::Real lin = g.lin_scale_M(Mref);
    std::string d = "{" + vf::kv("coeffs", vf::decvec(X.coeffs())) + "," + vf::kv("M_ref", vf::decmat(Mref)) + "}";
    close(g.diffM(Mx, Mref, lin), B::B1, "constructed_element_is_the_supplied_transformation", key, d);
    close(vf::norm_dev(X), B::eps_lib, "constructed_element_is_valid", key, d);
    if (distinct.insert(key).second) ++R.nontrivial;
  }
  template <class Rm> void check_rotation(const Rm& Rot, const ref::Mat& Rref, const std::string& key) {
    ref::Mat Rl = vf::toLM(Rot);
    const int n = (int)Rl.rows();
    close(vf::maxabs((Rl - Rref)), B::B1, "rotation()_is_supplied_rotation", key);
    close(vf::maxabs((Rl * Rl.transpose() - ref::Mat::Identity(n, n))), 4 * B::B1 + 4 * B::eps_lib, "rotation()_orthonormal", key);
    close(std::fabs(Rl.determinant() - 1), 4 * B::B1 + 6 * B::eps_lib, "rotation()_det_plus_one", key);
  }

  // validation: f(kappa) constructs from rotation data of norm 1 + kappa*eps
  template <class F> void validation(const char* entry, const std::string& dir, F f) {
    const double kap[] = {0, 0.5, -0.5, 0.9, -0.9, 0.99, -0.99, 1.01, -1.01, 1.1, -1.1, 2, -2, 10, -10, 1e3, -1e3, 1e10, -1e10};
    for (size_t i = 0; i < sizeof kap / sizeof kap[0]; ++i) {
      double k = kap[i];
      std::string key = std::string(entry) + "," + dir + ",kappa=" + lat::fmt("%g", k);
      if (!R.want(key)) continue;
      int outcome = 0;
      try { f((ref::Real)k); } catch (manif::invalid_argument&) { outcome = 1; } catch (std::exception&) { outcome = 2; }
      ++R.states;
      if (!ASSERTS) expect(outcome == 0, "ndebug_never_rejects", key);
      else if (std::fabs(k) >= 1.1) expect(outcome == 1, "non_unit_rotation_data_rejected_with_invalid_argument", key, "{" + vf::kv("outcome", std::to_string(outcome)) + "}");
      else if (std::fabs(k) <= 0.9) expect(outcome == 0, "data_within_threshold_never_rejected", key);
      else R.count(outcome ? "band_0.9..1.1_rejected" : "band_0.9..1.1_accepted");
    }
  }
  // entry points that are not constructors (assignment from a raw vector, setters): the statement speaks of rejection
  // "at construction" only, so their behaviour is counted, never judged -- except under NDEBUG, where nothing may throw
  template <class F> void informational(const char* entry, const std::string& dir, F f) {
    const double kap[] = {0, 0.9, -0.9, 1.1, -1.1, 10, -1e3};
    for (size_t i = 0; i < sizeof kap / sizeof kap[0]; ++i) {
      int outcome = 0;
      try { f((ref::Real)kap[i]); } catch (manif::invalid_argument&) { outcome = 1; } catch (std::exception&) { outcome = 2; }
      std::string key = std::string(entry) + "," + dir + ",kappa=" + lat::fmt("%g", kap[i]);
      if (!ASSERTS) expect(outcome == 0, "ndebug_never_rejects", key);
      else if (std::fabs(kap[i]) <= 0.9) expect(outcome == 0, "data_within_threshold_never_rejected", key);
      else R.count(std::string("non_constructor_entry_") + entry + (outcome ? "_rejects_non_unit" : "_accepts_non_unit"));
    }
  }
  ref::Real scale_for(ref::Real kappa) const { return 1 + kappa * (ref::Real)manif::Constants<S>::eps; }

  // angle lattice
  std::vector<std::pair<ref::Real, std::string> > angles() {
    std::vector<std::pair<ref::Real, std::string> > a;
    for (int k = -64; k <= 64; ++k) a.push_back(std::make_pair(cfg.rnd(k * lat::PI / 8), "k*pi/8,k=" + std::to_string(k)));
    a.push_back(std::make_pair((ref::Real)1e6, "1e6")); a.push_back(std::make_pair((ref::Real)-1e6, "-1e6"));
    ref::Real p = cfg.rnd(lat::PI);
    a.push_back(std::make_pair(cfg.next(p), "next(pi)")); a.push_back(std::make_pair(cfg.prev(p), "prev(pi)"));
    a.push_back(std::make_pair(-cfg.next(p), "-next(pi)")); a.push_back(std::make_pair(-cfg.prev(p), "-prev(pi)"));
    a.push_back(std::make_pair((ref::Real)1e-9, "1e-9")); a.push_back(std::make_pair((ref::Real)0.3, "0.3"));
    return a;
  }
  static ref::Mat rot2(ref::Real th) { ref::Mat m(2, 2); m << std::cos(th), -std::sin(th), std::sin(th), std::cos(th); return m; }
  static ref::Mat rotx(ref::Real a) { ref::Mat m = ref::Mat::Identity(3, 3); m(1, 1) = std::cos(a); m(1, 2) = -std::sin(a); m(2, 1) = std::sin(a); m(2, 2) = std::cos(a); return m; }
  static ref::Mat roty(ref::Real a) { ref::Mat m = ref::Mat::Identity(3, 3); m(0, 0) = std::cos(a); m(0, 2) = std::sin(a); m(2, 0) = -std::sin(a); m(2, 2) = std::cos(a); return m; }
  static ref::Mat rotz(ref::Real a) { ref::Mat m = ref::Mat::Identity(3, 3); m(0, 0) = std::cos(a); m(0, 1) = -std::sin(a); m(1, 0) = std::sin(a); m(1, 1) = std::cos(a); return m; }
  // documented roll-pitch-yaw convention: R = Rz(yaw) Ry(pitch) Rx(roll)
  static ref::Mat rpy(ref::Real r, ref::Real p, ref::Real y) { return rotz(y) * roty(p) * rotx(r); }
  std::vector<ref::Real> rpy_grid() { std::vector<ref::Real> v; for (int k = -8; k <= 8; ++k) v.push_back(cfg.rnd(k * lat::PI / 4)); return v; }
  std::vector<std::pair<V3, std::string> > linear3() {
    std::vector<std::pair<V3, std::string> > v;
    v.push_back(std::make_pair(V3(0, 0, 0), "0")); v.push_back(std::make_pair(V3(S(0.36), S(-0.48), S(0.8)), "gen"));
    v.push_back(std::make_pair(V3(S(-1e3), S(2e3), S(0.5)), "1e3")); v.push_back(std::make_pair(V3(S(1e6), S(-3e5), S(7e5)), "1e6"));
    return v;
  }
  // unit quaternions in both hemispheres (long double, then rounded by make)
  std::vector<std::pair<ref::Vec, std::string> > quats() {
    std::vector<std::pair<ref::Vec, std::string> > v;
    ref::Group so3 = ref::Group::single(ref::SO3);
    std::vector<lat::XAtom> xs = lat::elements(so3, cfg, lat::REDUCED);
    for (size_t i = 0; i < xs.size(); ++i) v.push_back(std::make_pair(xs[i].c, xs[i].key));
    return v;
  }
  template <class V> static V rounded(const ref::Vec& c) { V r; for (int i = 0; i < (int)c.size(); ++i) r(i) = (S)c(i); return r; }
  static Q toQ(const ref::Vec& c) { return Q((S)c(3), (S)c(0), (S)c(1), (S)c(2)); }
  static ref::Mat Rq(const Q& q) { return ref::quat2rot((ref::Real)q.x(), (ref::Real)q.y(), (ref::Real)q.z(), (ref::Real)q.w()); }

  // cast to the other scalar and back
  void check_cast(const G& X, const std::string& key) {
    typedef typename std::conditional<std::is_same<S, double>::value, float, double>::type O;
    auto Y = X.template cast<O>();
    typedef decltype(Y) GO;
    ref::Mat Mx = vf::Mof(X);
    ref::Mat My = vf::RG<GO>().toM(vf::toL(Y.coeffs()));
    ref::Real lin = g.lin_scale_M(Mx);
    close(g.diffM(My, Mx, lin), vf::Bars<float>::B1, "cast_equals_original_to_narrower_precision", key);
    close(vf::norm_dev(Y), vf::Bars<O>::eps_lib, "cast_is_valid_element", key, "{" + vf::kv("cast", vf::hexvec(Y.coeffs())) + "}");
    auto Z = X.template cast<S>();
    expect(vf::bits_equal(Z.coeffs(), X.coeffs()) || vf::norm_dev(Z) < B::eps_lib, "cast_to_same_scalar_is_valid", key);
    ++R.states;
  }

  void run();
};

// ================================================================================================
#if VF_KIND == 1  // SO2
template <class G> void C13<G>::run() {
  std::vector<std::pair<ref::Real, std::string> > an = angles();
  for (size_t i = 0; i < an.size(); ++i) {
    if (!R.mine()) continue;
    std::string key = "SO2(theta)," + an[i].second;
    if (!R.want(key)) continue;
    S th = (S)an[i].first; ref::Real tl = (ref::Real)th;
    G X(th);
    ref::Mat M = rot2(tl);
    check_matrix(X, M, key);
    check_rotation(X.rotation(), M, key);
    close(std::max(std::fabs((ref::Real)X.real() - std::cos(tl)), std::fabs((ref::Real)X.imag() - std::sin(tl))), B::B1 * std::max((ref::Real)1, std::fabs(tl) * 0 + 1), "accessors_return_supplied", key);
    ref::Real a = (ref::Real)X.angle();
    expect(a > -lat::PI * (1 + 4 * B::u) && a <= lat::PI * (1 + 4 * B::u), "angle()_in_principal_range", key);
    close(std::max(std::fabs(std::cos(a) - std::cos(tl)), std::fabs(std::sin(a) - std::sin(tl))), B::B1, "angle()_is_supplied_angle_mod_2pi", key);
    G Y(X.real(), X.imag());
    expect(vf::bits_equal(Y.coeffs(), X.coeffs()), "accessors_fed_back_reproduce_element", key);
    G Z(X.angle());
    close(g.diffM(vf::Mof(Z), vf::Mof(X), 1), B::B1, "accessors_fed_back_reproduce_element", key);
    ref::Mat Tm = vf::toLM(X.transform()); ref::Mat E = ref::Mat::Identity(3, 3); E.topLeftCorner(2, 2) = vf::Mof(X);
    close(vf::maxabs((Tm - E)), B::B1, "transform()_is_homogeneous_matrix", key);
    check_cast(X, key);
    G C(static_cast<const manif::LieGroupBase<G>&>(X));
    expect(vf::bits_equal(C.coeffs(), X.coeffs()), "copy_construct_preserves", key);
    if (i == 3) R.sample("{" + vf::kv("cell", vf::q(key)) + "," + vf::kv("theta", vf::jnum(tl)) + "," + vf::kv("coeffs", vf::decvec(X.coeffs())) + "}");
  }
  // validation
  const double dirs[4] = {0.3, 2.5, -1.2, 3.1};
  for (int d = 0; d < 4; ++d) {
    if (!R.mine()) continue;
    ref::Real c = std::cos((ref::Real)dirs[d]), s = std::sin((ref::Real)dirs[d]);
    std::string dn = "dir=" + lat::fmt("%g", dirs[d]);
    validation("SO2(real,imag)", dn, [&](ref::Real k) { G X((S)(c * scale_for(k)), (S)(s * scale_for(k))); (void)X; });
    validation("SO2(vector)", dn, [&](ref::Real k) { typename G::DataType v; v << (S)(c * scale_for(k)), (S)(s * scale_for(k)); G X(v); (void)X; });
    informational("SO2=vector", dn, [&](ref::Real k) { typename G::DataType v; v << (S)(c * scale_for(k)), (S)(s * scale_for(k)); G X; X = v; });
    // normalize() makes any non-degenerate data acceptable
    for (double k : {1e3, -1e3, 1e10, 3e14}) {
      G X; X.coeffs() << (S)(c * (1 + k * 1e-16)), (S)(s * (1 + k * 1e-16)); X.coeffs() *= S(1 + k * (double)manif::Constants<S>::eps);
      X.normalize();
      int outcome = 0; try { G Y(X.coeffs()); (void)Y; } catch (...) { outcome = 1; }
      expect(outcome == 0 && vf::norm_dev(X) < B::eps_lib, "normalize_makes_data_acceptable", "SO2," + dn + ",kappa=" + lat::fmt("%g", k));
    }
  }
}
#endif

#if VF_KIND == 2  // SE2
template <class G> void C13<G>::run() {
  std::vector<std::pair<ref::Real, std::string> > an = angles();
  const double lin[4][2] = {{0, 0}, {0.6, -0.8}, {-1e3, 2e3}, {1e6, -3e5}};
  for (size_t i = 0; i < an.size(); ++i)
    for (int l = 0; l < 4; ++l) {
      if (!R.mine()) continue;
      std::string key = "SE2(x,y,theta)," + an[i].second + ",lin=" + std::to_string(l);
      if (!R.want(key)) continue;
      S th = (S)an[i].first, x = (S)lin[l][0], y = (S)lin[l][1]; ref::Real tl = (ref::Real)th;
      G X(x, y, th);
      ref::Mat M = ref::Mat::Identity(3, 3); M.topLeftCorner(2, 2) = rot2(tl); M(0, 2) = (ref::Real)x; M(1, 2) = (ref::Real)y;
      check_matrix(X, M, key);
      check_rotation(X.rotation(), rot2(tl), key);
      expect(X.x() == x && X.y() == y && X.translation()(0) == x && X.translation()(1) == y, "accessors_return_supplied", key);
      close(std::max(std::fabs((ref::Real)X.real() - std::cos(tl)), std::fabs((ref::Real)X.imag() - std::sin(tl))), B::B1, "accessors_return_supplied", key);
      ref::Real a = (ref::Real)X.angle();
      close(std::max(std::fabs(std::cos(a) - std::cos(tl)), std::fabs(std::sin(a) - std::sin(tl))), B::B1, "angle()_is_supplied_angle_mod_2pi", key);
      close(vf::maxabs((vf::toLM(X.transform()) - vf::Mof(X))) / g.lin_scale_M(M), B::B1, "transform()_is_homogeneous_matrix", key);
      close(vf::maxabs((vf::toLM(X.isometry().matrix()) - vf::Mof(X))) / g.lin_scale_M(M), B::B1, "isometry()_is_homogeneous_matrix", key);
      // other constructors agree
      G A(x, y, X.real(), X.imag()), Bq(V2(x, y), std::complex<S>(X.real(), X.imag())), C(x, y, std::complex<S>(X.real(), X.imag())), D(X.isometry());
      expect(vf::bits_equal(A.coeffs(), X.coeffs()) && vf::bits_equal(Bq.coeffs(), X.coeffs()) && vf::bits_equal(C.coeffs(), X.coeffs()), "accessors_fed_back_reproduce_element", key);
      close(g.diffM(vf::Mof(D), vf::Mof(X), g.lin_scale_M(M)), B::B1, "accessors_fed_back_reproduce_element", key);
      G Z(X.x(), X.y(), X.angle());
      close(g.diffM(vf::Mof(Z), vf::Mof(X), g.lin_scale_M(M)), B::B1, "accessors_fed_back_reproduce_element", key);
      check_cast(X, key);
      if (i == 3 && l == 1) R.sample("{" + vf::kv("cell", vf::q(key)) + "," + vf::kv("coeffs", vf::decvec(X.coeffs())) + "}");
    }
  const double dirs[3] = {0.3, 2.5, -3.1};
  for (int d = 0; d < 3; ++d) {
    if (!R.mine()) continue;
    ref::Real c = std::cos((ref::Real)dirs[d]), s = std::sin((ref::Real)dirs[d]);
    std::string dn = "dir=" + lat::fmt("%g", dirs[d]);
    validation("SE2(x,y,real,imag)", dn, [&](ref::Real k) { G X(S(1), S(2), (S)(c * scale_for(k)), (S)(s * scale_for(k))); (void)X; });
    validation("SE2(t,complex)", dn, [&](ref::Real k) { G X(V2(1, 2), std::complex<S>((S)(c * scale_for(k)), (S)(s * scale_for(k)))); (void)X; });
    validation("SE2(x,y,complex)", dn, [&](ref::Real k) { G X(S(1), S(2), std::complex<S>((S)(c * scale_for(k)), (S)(s * scale_for(k)))); (void)X; });
    validation("SE2(vector)", dn, [&](ref::Real k) { typename G::DataType v; v << S(1), S(2), (S)(c * scale_for(k)), (S)(s * scale_for(k)); G X(v); (void)X; });
    informational("SE2=vector", dn, [&](ref::Real k) { typename G::DataType v; v << S(1), S(2), (S)(c * scale_for(k)), (S)(s * scale_for(k)); G X; X = v; });
    for (double k : {1e3, -1e3, 1e10}) {
      G X; X.coeffs() << S(1), S(2), (S)c, (S)s; X.coeffs().template tail<2>() *= S(1 + k * (double)manif::Constants<S>::eps);
      X.normalize();
      int outcome = 0; try { G Y(X.coeffs()); (void)Y; } catch (...) { outcome = 1; }
      expect(outcome == 0 && vf::norm_dev(X) < B::eps_lib && X.x() == S(1), "normalize_makes_data_acceptable", "SE2," + dn + ",kappa=" + lat::fmt("%g", k));
    }
  }
}
#endif

#if VF_KIND >= 3 && VF_KIND <= 6  // SO3, SE3, SE_2_3, SGal3
template <class G> struct Make;
#if VF_KIND == 3
template <class G> struct Make {
  typedef typename G::Scalar S; typedef Eigen::Matrix<S, 3, 1> V3; typedef Eigen::Quaternion<S> Q;
  static const int NL = 1;
  static G from_q(const V3&, const Q& q, const V3&, S) { return G(q); }
  static G from_aa(const V3&, const Eigen::AngleAxis<S>& a, const V3&, S) { return G(a); }
  static G from_so3(const V3&, const manif::SO3<S>& r, const V3&, S) { return G(r); }
  static G from_rpy(const V3&, S r, S p, S y, const V3&, S) { return G(r, p, y); }
  static G from_vec(const V3&, const Q& q, const V3&, S) { typename G::DataType v; v << q.x(), q.y(), q.z(), q.w(); return G(v); }
  static void assign_vec(G& X, const V3&, const Q& q, const V3&, S) { typename G::DataType v; v << q.x(), q.y(), q.z(), q.w(); X = v; }
  static G from_xyzw(const Q& q) { return G(q.x(), q.y(), q.z(), q.w()); }
  static ref::Mat M(const ref::Mat& Rm, const V3&, const V3&, S) { return Rm; }
  static V3 T(const G&) { return V3::Zero(); }
  static V3 V(const G&) { return V3::Zero(); }
  static S Tau(const G&) { return S(0); }
  static bool acc(const G& X, const V3&, const V3&, S) { Q q = X.quat(); return X.x() == q.x() && X.y() == q.y() && X.z() == q.z() && X.w() == q.w(); }
};
#elif VF_KIND == 4
template <class G> struct Make {
  typedef typename G::Scalar S; typedef Eigen::Matrix<S, 3, 1> V3; typedef Eigen::Quaternion<S> Q;
  static const int NL = 4;
  static G from_q(const V3& t, const Q& q, const V3&, S) { return G(t, q); }
  static G from_aa(const V3& t, const Eigen::AngleAxis<S>& a, const V3&, S) { return G(t, a); }
  static G from_so3(const V3& t, const manif::SO3<S>& r, const V3&, S) { return G(t, r); }
  static G from_rpy(const V3& t, S r, S p, S y, const V3&, S) { return G(t(0), t(1), t(2), r, p, y); }
  static G from_vec(const V3& t, const Q& q, const V3&, S) { typename G::DataType v; v << t, q.x(), q.y(), q.z(), q.w(); return G(v); }
  static void assign_vec(G& X, const V3& t, const Q& q, const V3&, S) { typename G::DataType v; v << t, q.x(), q.y(), q.z(), q.w(); X = v; }
  static ref::Mat M(const ref::Mat& Rm, const V3& t, const V3&, S) { ref::Mat m = ref::Mat::Identity(4, 4); m.topLeftCorner(3, 3) = Rm; for (int i = 0; i < 3; ++i) m(i, 3) = (ref::Real)t(i); return m; }
  static V3 T(const G& X) { return X.translation(); }
  static V3 V(const G&) { return V3::Zero(); }
  static S Tau(const G&) { return S(0); }
  static bool iso(const G& X) { auto I = X.isometry().matrix(); return I.template topLeftCorner<3, 3>() == X.rotation() && I.template topRightCorner<3, 1>() == X.translation() && I(3, 3) == S(1) && I(3, 0) == S(0); }
  static bool acc(const G& X, const V3& t, const V3&, S) {
    G Y = X; Y.translation(V3(S(1), S(2), S(3))); bool set = Y.x() == S(1) && Y.z() == S(3) && Y.quat().coeffs() == X.quat().coeffs();
    G W = G::Identity(); W.quat(manif::SO3<S>(X.quat())); set = set && W.quat().coeffs() == X.quat().coeffs();
    G Z(X.isometry()); bool isoback = (Z.translation() - X.translation()).norm() == 0 && vf::maxabs((Z.rotation() - X.rotation())) < 16 * std::numeric_limits<S>::epsilon();
    return X.translation() == t && X.x() == t(0) && X.y() == t(1) && X.z() == t(2) && iso(X) && set && isoback; }
};
#elif VF_KIND == 5
template <class G> struct Make {
  typedef typename G::Scalar S; typedef Eigen::Matrix<S, 3, 1> V3; typedef Eigen::Quaternion<S> Q;
  static const int NL = 4;
  static G from_q(const V3& t, const Q& q, const V3& v, S) { return G(t, q, v); }
  static G from_aa(const V3& t, const Eigen::AngleAxis<S>& a, const V3& v, S) { return G(t, a, v); }
  static G from_so3(const V3& t, const manif::SO3<S>& r, const V3& v, S) { return G(t, r, v); }
  static G from_rpy(const V3& t, S r, S p, S y, const V3& v, S) { return G(t(0), t(1), t(2), r, p, y, v(0), v(1), v(2)); }
  static G from_vec(const V3& t, const Q& q, const V3& w, S) { typename G::DataType v; v << t, q.x(), q.y(), q.z(), q.w(), w; return G(v); }
  static void assign_vec(G& X, const V3& t, const Q& q, const V3& w, S) { typename G::DataType v; v << t, q.x(), q.y(), q.z(), q.w(), w; X = v; }
  static ref::Mat M(const ref::Mat& Rm, const V3& t, const V3& v, S) { ref::Mat m = ref::Mat::Identity(5, 5); m.topLeftCorner(3, 3) = Rm; for (int i = 0; i < 3; ++i) { m(i, 3) = (ref::Real)t(i); m(i, 4) = (ref::Real)v(i); } return m; }
  static V3 T(const G& X) { return X.translation(); }
  static V3 V(const G& X) { return X.linearVelocity(); }
  static S Tau(const G&) { return S(0); }
  static bool acc(const G& X, const V3& t, const V3& v, S) {
    bool iso = X.isometry() == X.transform();
    Eigen::Transform<S, 3, Eigen::Isometry> h = Eigen::Translation<S, 3>(X.translation()) * X.quat();
    G Z(h, X.linearVelocity()); bool isoback = (Z.translation() - X.translation()).norm() == 0 && Z.linearVelocity() == X.linearVelocity() && vf::maxabs((Z.rotation() - X.rotation())) < 16 * std::numeric_limits<S>::epsilon();
    return X.translation() == t && X.x() == t(0) && X.y() == t(1) && X.z() == t(2) && X.linearVelocity() == v && X.vx() == v(0) && X.vy() == v(1) && X.vz() == v(2) && iso && isoback; }
};
#else
template <class G> struct Make {
  typedef typename G::Scalar S; typedef Eigen::Matrix<S, 3, 1> V3; typedef Eigen::Quaternion<S> Q;
  static const int NL = 4;
  static G from_q(const V3& t, const Q& q, const V3& v, S tau) { return G(t, q, v, tau); }
  static G from_aa(const V3& t, const Eigen::AngleAxis<S>& a, const V3& v, S tau) { return G(t, a, v, tau); }
  static G from_so3(const V3& t, const manif::SO3<S>& r, const V3& v, S tau) { return G(t, r, v, tau); }
  static G from_rpy(const V3& t, S r, S p, S y, const V3& v, S tau) { return G(t(0), t(1), t(2), r, p, y, v(0), v(1), v(2), tau); }
  static G from_vec(const V3& t, const Q& q, const V3& w, S tau) { typename G::DataType v; v << t, q.x(), q.y(), q.z(), q.w(), w, tau; return G(v); }
  static void assign_vec(G& X, const V3& t, const Q& q, const V3& w, S tau) { typename G::DataType v; v << t, q.x(), q.y(), q.z(), q.w(), w, tau; X = v; }
  static ref::Mat M(const ref::Mat& Rm, const V3& t, const V3& v, S tau) { ref::Mat m = ref::Mat::Identity(5, 5); m.topLeftCorner(3, 3) = Rm; for (int i = 0; i < 3; ++i) { m(i, 4) = (ref::Real)t(i); m(i, 3) = (ref::Real)v(i); } m(3, 4) = (ref::Real)tau; return m; }
  static V3 T(const G& X) { return X.translation(); }
  static V3 V(const G& X) { return X.linearVelocity(); }
  static S Tau(const G& X) { return X.t(); }
  static bool acc(const G& X, const V3& t, const V3& v, S tau) {
    bool iso = X.isometry() == X.transform();
    Eigen::Transform<S, 3, Eigen::Isometry> h = Eigen::Translation<S, 3>(X.translation()) * X.quat();
    G Z(h, X.linearVelocity(), X.t()); bool isoback = (Z.translation() - X.translation()).norm() == 0 && Z.linearVelocity() == X.linearVelocity() && Z.t() == X.t() && vf::maxabs((Z.rotation() - X.rotation())) < 16 * std::numeric_limits<S>::epsilon();
    return X.translation() == t && X.x() == t(0) && X.y() == t(1) && X.z() == t(2) && X.linearVelocity() == v && X.vx() == v(0) && X.vy() == v(1) && X.vz() == v(2) && X.t() == tau && iso && isoback; }
};
#endif

template <class G> void C13<G>::run() {
  typedef Make<G> Mk;
  std::vector<std::pair<V3, std::string> > lin = linear3();
  std::vector<std::pair<ref::Vec, std::string> > qs = quats();
  const S tau = S(-2.5);
  // (a) quaternion constructors, both hemispheres
  for (size_t i = 0; i < qs.size(); ++i)
    for (int l = 0; l < Mk::NL; ++l) {
      if (!R.mine()) continue;
      std::string key = "G(..quaternion..)," + qs[i].second + ",lin=" + lin[l].second;
      if (!R.want(key)) continue;
      ref::Vec qc = qs[i].first;
      { ref::Real n = 0; for (int k = 0; k < 4; ++k) { qc(k) = (ref::Real)(S)qc(k); n += qc(k) * qc(k); } n = std::sqrt(n); for (int k = 0; k < 4; ++k) qc(k) /= n; }
      Q q = toQ(qc);
      V3 t = lin[l].first, v = lin[(l + 1) % lin.size()].first;
      G X = Mk::from_q(t, q, v, tau);
      ref::Mat Rm = Rq(q), M = Mk::M(Rm, t, v, tau);
      check_matrix(X, M, key);
      check_rotation(X.rotation(), Rm, key);
      Q back = X.quat();
      expect(back.x() == q.x() && back.y() == q.y() && back.z() == q.z() && back.w() == q.w(), "accessors_return_supplied", key);
      ref::Mat Tm = vf::toLM(X.transform());
      ref::Mat E = vf::Mof(X); if (Tm.rows() == E.rows() + 1) { ref::Mat E2 = ref::Mat::Identity(E.rows() + 1, E.rows() + 1); E2.topLeftCorner(E.rows(), E.rows()) = E; E = E2; }
      close(vf::maxabs((Tm - E)) / g.lin_scale_M(M), B::B1, "transform()_is_homogeneous_matrix", key);
      // same data through the other entry points
      G A = Mk::from_vec(t, q, v, tau), Bq = Mk::from_so3(t, manif::SO3<S>(q), v, tau);
      G C; Mk::assign_vec(C, t, q, v, tau);
      expect(vf::bits_equal(A.coeffs(), X.coeffs()) && vf::bits_equal(Bq.coeffs(), X.coeffs()) && vf::bits_equal(C.coeffs(), X.coeffs()), "all_constructors_agree", key);
      // accessors fed back
      G Z = Mk::from_q(Mk::T(X), X.quat(), Mk::V(X), Mk::Tau(X));
      expect(vf::bits_equal(Z.coeffs(), X.coeffs()), "accessors_fed_back_reproduce_element", key);
      expect(Mk::acc(X, t, v, tau), "accessors_return_supplied", key);
      check_cast(X, key);
      if (i == 5 && l == 0) R.sample("{" + vf::kv("cell", vf::q(key)) + "," + vf::kv("coeffs", vf::decvec(X.coeffs())) + "}");
    }
  // (b) angle-axis
  {
    ref::Group so3 = ref::Group::single(ref::SO3);
    std::vector<lat::TAtom> ts = lat::tangents(so3, cfg, lat::REDUCED);
    for (size_t i = 0; i < ts.size(); ++i) {
      if (!R.mine()) continue;
      std::string key = "G(..angle_axis..)," + ts[i].key;
      if (!R.want(key)) continue;
      if (ts[i].theta == 0) continue;
      ref::Vec ax = ts[i].t / ts[i].theta;
      V3 axis((S)ax(0), (S)ax(1), (S)ax(2)); axis.normalize();
      S ang = (S)ts[i].theta;
      Eigen::AngleAxis<S> aa(ang, axis);
      V3 t = lin[i % lin.size()].first, v = lin[(i + 1) % lin.size()].first;
      G X = Mk::from_aa(t, aa, v, tau);
      ref::Vec w(3); for (int k = 0; k < 3; ++k) w(k) = (ref::Real)ang * (ref::Real)axis(k);
      ref::Mat Rm = so3.exp(w);
      check_matrix(X, Mk::M(Rm, t, v, tau), key);
      check_rotation(X.rotation(), Rm, key);
    }
  }
  // (c) roll-pitch-yaw over the whole grid incl. gimbal configurations
  {
    std::vector<ref::Real> gr = rpy_grid();
    for (size_t a = 0; a < gr.size(); ++a)
      for (size_t b = 0; b < gr.size(); ++b)
        for (size_t c = 0; c < gr.size(); ++c) {
          if (!R.mine()) continue;
          std::string key = "G(..roll,pitch,yaw..),r=" + std::to_string((int)a - 8) + "pi/4,p=" + std::to_string((int)b - 8) + "pi/4,y=" + std::to_string((int)c - 8) + "pi/4";
          if (!R.want(key)) continue;
          S r = (S)gr[a], p = (S)gr[b], y = (S)gr[c];
          V3 t = lin[(a + b + c) % lin.size()].first, v = lin[(a + 2 * b + c + 1) % lin.size()].first;
          G X = Mk::from_rpy(t, r, p, y, v, tau);
          ref::Mat Rm = rpy((ref::Real)r, (ref::Real)p, (ref::Real)y);
          check_matrix(X, Mk::M(Rm, t, v, tau), key);
          if ((a + b + c) % 7 == 0) check_rotation(X.rotation(), Rm, key);
          if (b == 6 || b == 10 || b == 2 || b == 14) R.count("gimbal_lock_pitch_cells");
        }
  }
  // (d) validation of every entry point that accepts rotation data
  for (size_t i = 0; i < qs.size(); i += std::max<size_t>(1, qs.size() / 5)) {
    if (!R.mine()) continue;
    ref::Vec qc = qs[i].first;
    std::string dn = qs[i].second;
    V3 t = lin[1].first, v = lin[2].first;
    auto scaled = [&](ref::Real k) { ref::Vec c = qc * scale_for(k); return toQ(c); };
    validation("G(..quaternion..)", dn, [&](ref::Real k) { G X = Mk::from_q(t, scaled(k), v, tau); (void)X; });
    validation("G(vector)", dn, [&](ref::Real k) { G X = Mk::from_vec(t, scaled(k), v, tau); (void)X; });
    informational("G=vector", dn, [&](ref::Real k) { G X; Mk::assign_vec(X, t, scaled(k), v, tau); });
#if VF_KIND <= 4
    // setters: the statement requires rejection "at construction"; setter behaviour is recorded, not judged
    informational("quat(quaternion)", dn, [&](ref::Real k) { G X = G::Identity(); X.quat(scaled(k)); });
    informational("quat(vector)", dn, [&](ref::Real k) { G X = G::Identity(); Q q = scaled(k); Eigen::Matrix<S, 4, 1> c4(q.x(), q.y(), q.z(), q.w()); X.quat(c4); });
#endif
#if VF_KIND == 3
    validation("SO3(x,y,z,w)", dn, [&](ref::Real k) { G X = Mk::from_xyzw(scaled(k)); (void)X; });
#endif
    for (double k : {1e3, -1e3, 1e10}) {
      Q q = toQ(qc); G X = Mk::from_q(t, q, v, tau);
      std::vector<char> m = g.rot_coeff_mask();
      for (int c = 0; c < G::RepSize; ++c) if (m[c]) X.coeffs()(c) *= S(1 + k * (double)manif::Constants<S>::eps);
      X.normalize();
      int outcome = 0; try { G Y(X.coeffs()); (void)Y; } catch (...) { outcome = 1; }
      expect(outcome == 0 && vf::norm_dev(X) < B::eps_lib, "normalize_makes_data_acceptable", dn + ",kappa=" + lat::fmt("%g", k));
    }
  }
}
#endif

#if VF_KIND == 7  // Rn
template <class G> void C13<G>::run() {
  std::vector<lat::TAtom> ts = lat::tangents(g, cfg, lat::FULL);
  for (size_t i = 0; i < ts.size(); ++i) {
    if (!R.mine()) continue;
    std::string key = "Rn(vector)," + ts[i].key;
    if (!R.want(key)) continue;
    typename G::DataType v; for (int k = 0; k < G::RepSize; ++k) v(k) = (S)ts[i].t(k);
    G X(v);
    expect(vf::bits_equal(X.coeffs(), v), "accessors_return_supplied", key);
    check_matrix(X, g.toM(vf::toL(v)), key);
    ref::Mat Tm = vf::toLM(X.transform());
    close((Tm.rows() == g.N ? vf::maxabs((Tm - g.toM(vf::toL(v)))) : 1), 1e-300L, "transform()_is_homogeneous_matrix", key);
    G Y; Y = v; expect(vf::bits_equal(Y.coeffs(), v), "all_constructors_agree", key);
    check_cast(X, key);
    if (i == 2) R.sample("{" + vf::kv("cell", vf::q(key)) + "," + vf::kv("coeffs", vf::decvec(X.coeffs())) + "}");
  }
}
#endif

#if VF_KIND == 8  // Bundle
template <class G> void C13<G>::run() {
  std::vector<lat::XAtom> xs = lat::thin(lat::elements(g, cfg, lat::REDUCED), 120, R.args.seed);
  for (size_t i = 0; i < xs.size(); ++i) {
    if (!R.mine()) continue;
    std::string key = "Bundle(vector)," + xs[i].key;
    if (!R.want(key)) continue;
    G X0 = vf::make_elem<G>(xs[i].c);
    typename G::DataType v = X0.coeffs();
    G X(v);
    expect(vf::bits_equal(X.coeffs(), v), "accessors_return_supplied", key);
    check_matrix(X, g.toM(vf::toL(v)), key);
    G Y; Y = v; expect(vf::bits_equal(Y.coeffs(), v), "all_constructors_agree", key);
    check_cast(X, key);
    if (i == 2) R.sample("{" + vf::kv("cell", vf::q(key)) + "," + vf::kv("coeffs", vf::decvec(X.coeffs())) + "}");
  }
  // validation of raw coefficient vectors: rotation data of every element must be validated
  std::vector<char> m = g.rot_coeff_mask();
  for (size_t i = 0; i < xs.size(); i += std::max<size_t>(1, xs.size() / 4)) {
    if (!R.mine()) continue;
    ref::Vec c = vf::toL(vf::make_elem<G>(xs[i].c).coeffs());
    auto scaled = [&](ref::Real k) { typename G::DataType v; for (int q = 0; q < G::RepSize; ++q) v(q) = (S)(m[q] ? c(q) * scale_for(k) : c(q)); return v; };
    validation("Bundle(vector)", xs[i].key, [&](ref::Real k) { G X(scaled(k)); (void)X; });
    informational("Bundle=vector", xs[i].key, [&](ref::Real k) { G X; X = scaled(k); });
  }
}
#endif

template <class G> void run_c13(vf::Report& R) { C13<G> c(R); c.run(); }
VF_MAIN("C13", run_c13)
