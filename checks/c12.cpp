// C12 — generic in the scalar: dual numbers differentiate every operation correctly; ceres functors through raw pointers;
// single precision agrees with double.
#include "dual.hpp"
#include "harness.hpp"
#include <manif/ceres/local_parametrization.h>
#include <manif/ceres/manifold.h>
#include <manif/ceres/objective.h>
#include <manif/ceres/constraint.h>

#ifdef VF_FN_ALL
#define ON(k) 1
#else
#define ON(k) (VF_FN == (k))
#endif

template <class G> struct C12 {
  typedef typename G::Scalar S;  // double
  typedef typename G::Tangent T;
  typedef typename G::Jacobian J;
  typedef typename G::Vector P;
  static constexpr int D = G::DoF;
  typedef vfad::Dual<D> Du;
  typedef typename G::template LieGroupTemplate<Du> GD;
  typedef typename GD::Tangent TD;
  typedef typename G::template LieGroupTemplate<float> GF;
  typedef vf::Bars<S> B;
  vf::Report& R;
  const ref::Group& g;
  lat::Cfg cfg;
  std::vector<char> mk;
  C12(vf::Report& r) : R(r), g(vf::RG<G>()), cfg(vf::make_cfg<S>(r.args)), mk(g.rot_tangent_mask()) {}

  void close(ref::Real d, ref::Real bar, const std::string& check, const std::string& key, const std::string& detail = "{}") {
    if (!(d == d)) d = INFINITY;
    ++R.transitions;
    if (!R.judge(check, d, bar, key)) R.fail(check, check + "/" + key, d, bar, detail);
  }

  static bool same_num(double a, double b) { return a == b || (a != a && b != b); }
  static bool same_dual(const Du& a, const Du& b) { if (!same_num(a.a, b.a)) return false; for (int i = 0; i < D; ++i) if (!same_num(a.v(i), b.v(i))) return false; return true; }
  // lift to duals
  // coefficient-wise lift (cast<Dual>() re-normalises the rotation part and may move an input across a branch threshold by one ulp)
  static GD liftG(const G& X) { GD r; for (int i = 0; i < G::RepSize; ++i) r.coeffs()(i) = Du(X.coeffs()(i)); return r; }
  static TD liftT(const T& t) { TD r; for (int i = 0; i < D; ++i) r.coeffs()(i) = Du(t.coeffs()(i)); return r; }
  // the perturbation tangent: value 0, unit infinitesimal in every coordinate
  static TD seed() { TD d; for (int i = 0; i < D; ++i) d.coeffs()(i) = Du(0.0, i); return d; }
  template <class V> static Eigen::Matrix<double, V::RowsAtCompileTime, 1> primal(const V& v) {
    Eigen::Matrix<double, V::RowsAtCompileTime, 1> r; for (int i = 0; i < v.size(); ++i) r(i) = v(i).a; return r;
  }
  // infinitesimal parts of a dual vector -> matrix (rows = components, cols = seed coordinates)
  template <class V> static ref::Mat jac_of(const V& v) {
    ref::Mat Jm(v.size(), D);
    for (int i = 0; i < v.size(); ++i) for (int j = 0; j < D; ++j) Jm(i, j) = (ref::Real)v(i).v(j);
    return Jm;
  }

  void cmpJ(const std::string& op, const ref::Mat& Jdual, const ref::Mat& Jana, const std::vector<char>& rowrot, ref::Real L, const std::string& key) {
    ref::Real d = ref::diff_jac(Jdual, Jana, rowrot, mk, L);
    close(d, B::B4, "dual_derivative_equals_analytic_jacobian", op + "/" + key, "{" + vf::kv("J_dual", vf::decmat(Jdual)) + "," + vf::kv("J_analytic", vf::decmat(Jana)) + "}");
  }
  // the SAME inputs over Dual (infinitesimal parts zero) and over double: the primal must be the double result
  template <class A, class Bm> void cmpPrimal(const std::string& op, const A& dualvec, const Bm& dbl, ref::Real L, const std::string& key) {
    ref::Real d = 0;
    for (int i = 0; i < dbl.size(); ++i) d = vf::accmax(d, (ref::Real)std::fabs(dualvec(i).a - dbl(i)));
    // bar B2, not B1: the double instantiation may be vectorised by Eigen while the Dual one is not, so an input sitting on a
    // small-angle threshold can legitimately take the other branch; the two branches agree to the accuracy of exp/log (B2)
    close(d / std::max((ref::Real)1, L), B::B2, "dual_primal_equals_double_result", op + "/" + key);
  }

  void cell(const G& X, const G& Y, const T& t, const P& p, const std::string& key, ref::Real L) {
    const GD Xd0 = liftG(X), Yd0 = liftG(Y);
    const TD td0 = liftT(t), dd = seed();
    const GD Xd = Xd0 + dd, Yd = Yd0 + dd;    // X (+) d at d = 0 with unit infinitesimals
    const TD tdp = td0 + dd;                  // plain vector perturbation of a tangent argument
    std::vector<char> rowP(G::Dim, 0);
    J Ja, Jb;
    ++R.states;
    // cast<Dual>() is a valid element equal to the original (it may re-normalise: last-bit differences are legitimate)
    { GD c = X.template cast<Du>(); ref::Real d = 0; for (int i = 0; i < G::RepSize; ++i) d = vf::accmax(d, (ref::Real)std::fabs(c.coeffs()(i).a - X.coeffs()(i)));
      close(d / std::max((ref::Real)1, L), B::B1, "cast_to_dual_equals_original", "cast/" + key); }
    // inverse
    { G r = X.inverse(Ja); GD rd = Xd.inverse(); cmpPrimal("inverse", Xd0.inverse().coeffs(), r.coeffs(), L, key);
      TD diff = rd.rminus(liftG(r)); cmpJ("inverse", jac_of(diff.coeffs()), vf::toLM(Ja), mk, L, key); }
    // log (vector valued: plain difference)
    { T r = X.log(Ja); TD rd = Xd.log(); cmpPrimal("log", Xd0.log().coeffs(), r.coeffs(), L, key); cmpJ("log", jac_of(rd.coeffs()), vf::toLM(Ja), mk, L, key); }
    // exp (vector argument)
    { G r = t.exp(Ja); GD rd = tdp.exp(); cmpPrimal("exp", td0.exp().coeffs(), r.coeffs(), L, key);
      TD diff = rd.rminus(liftG(r)); cmpJ("exp", jac_of(diff.coeffs()), vf::toLM(Ja), mk, L, key); }
    // compose
    { G r = X.compose(Y, Ja, Jb); GD ra = Xd.compose(Yd0), rb = Xd0.compose(Yd); cmpPrimal("compose", Xd0.compose(Yd0).coeffs(), r.coeffs(), L, key);
      cmpJ("compose.Ja", jac_of(ra.rminus(liftG(r)).coeffs()), vf::toLM(Ja), mk, L, key); cmpJ("compose.Jb", jac_of(rb.rminus(liftG(r)).coeffs()), vf::toLM(Jb), mk, L, key); }
    // between
    { G r = X.between(Y, Ja, Jb); GD ra = Xd.between(Yd0), rb = Xd0.between(Yd); cmpPrimal("between", Xd0.between(Yd0).coeffs(), r.coeffs(), L, key);
      cmpJ("between.Ja", jac_of(ra.rminus(liftG(r)).coeffs()), vf::toLM(Ja), mk, L, key); cmpJ("between.Jb", jac_of(rb.rminus(liftG(r)).coeffs()), vf::toLM(Jb), mk, L, key); }
    // rplus / lplus
    { G r = X.rplus(t, Ja, Jb); GD ra = Xd.rplus(td0), rb = Xd0.rplus(tdp); cmpPrimal("rplus", Xd0.rplus(td0).coeffs(), r.coeffs(), L, key);
      cmpJ("rplus.Ja", jac_of(ra.rminus(liftG(r)).coeffs()), vf::toLM(Ja), mk, L, key); cmpJ("rplus.Jb", jac_of(rb.rminus(liftG(r)).coeffs()), vf::toLM(Jb), mk, L, key); }
    { G r = X.lplus(t, Ja, Jb); GD ra = Xd.lplus(td0), rb = Xd0.lplus(tdp); cmpPrimal("lplus", Xd0.lplus(td0).coeffs(), r.coeffs(), L, key);
      cmpJ("lplus.Ja", jac_of(ra.rminus(liftG(r)).coeffs()), vf::toLM(Ja), mk, L, key); cmpJ("lplus.Jb", jac_of(rb.rminus(liftG(r)).coeffs()), vf::toLM(Jb), mk, L, key); }
    // rminus / lminus (vector valued)
    { T r = X.rminus(Y, Ja, Jb); TD ra = Xd.rminus(Yd0), rb = Xd0.rminus(Yd); cmpPrimal("rminus", Xd0.rminus(Yd0).coeffs(), r.coeffs(), L, key);
      cmpJ("rminus.Ja", jac_of(ra.coeffs()), vf::toLM(Ja), mk, L, key); cmpJ("rminus.Jb", jac_of(rb.coeffs()), vf::toLM(Jb), mk, L, key); }
    { T r = X.lminus(Y, Ja, Jb); TD ra = Xd.lminus(Yd0), rb = Xd0.lminus(Yd); cmpPrimal("lminus", Xd0.lminus(Yd0).coeffs(), r.coeffs(), L, key);
      cmpJ("lminus.Ja", jac_of(ra.coeffs()), vf::toLM(Ja), mk, L, key); cmpJ("lminus.Jb", jac_of(rb.coeffs()), vf::toLM(Jb), mk, L, key); }
    // act with respect to the element
    { Eigen::Matrix<S, G::Dim, G::DoF> Jm; Eigen::Matrix<S, G::Dim, G::Dim> Jv;
      P r = X.act(p, Jm, Jv);
      typename GD::Vector pd; for (int i = 0; i < G::Dim; ++i) pd(i) = Du(p(i));
      typename GD::Vector rd = Xd.act(pd);
      cmpPrimal("act", Xd0.act(pd), r, std::max(L, (ref::Real)vf::maxabs(p)), key);
      cmpJ("act.Jm", jac_of(rd), vf::toLM(Jm), rowP, std::max(L, (ref::Real)vf::maxabs(p)), key); }
    // the remaining tangent-side quantities only need to instantiate and keep their primal
    { TD z = td0; cmpPrimal("rjac(0,0)", z.rjac().col(0), t.rjac().col(0), L, key); cmpPrimal("ljacinv(0,0)", z.ljacinv().col(0), t.ljacinv().col(0), L, key);
      cmpPrimal("smallAdj", z.smallAdj().col(0), t.smallAdj().col(0), L, key); cmpPrimal("adj", Xd0.adj().col(0), X.adj().col(0), L, key);
      cmpPrimal("hat", z.hat().col(z.hat().cols() - 1), t.hat().col(t.hat().cols() - 1), L, key); }
  }

#if ON(2)
  // ceres functors driven through raw pointers, for T = double and T = Dual
  void functors(const G& X, const G& Y, const T& t, const std::string& key) {
    ++R.states;
    // local parameterisation / manifold Plus
    {
      manif::CeresLocalParameterizationFunctor<G> lp; manifold_plus(lp, X, t, key, "local_parametrization");
      manif::CeresManifoldFunctor<G> mf;
      G out; mf.Plus(X.data(), t.data(), out.data());
      close(vf::bits_equal(out.coeffs(), (X + t).coeffs()) ? 0 : 1, 0.5, "functor_equals_member", "manifold.Plus<double>/" + key);
      T mo; mf.Minus(Y.data(), X.data(), mo.data());
      close(vf::bits_equal(mo.coeffs(), (Y - X).coeffs()) ? 0 : 1, 0.5, "functor_equals_member", "manifold.Minus<double>/" + key);
      GD Xd = liftG(X), Yd = liftG(Y); TD td = liftT(t) + seed();
      GD od; mf.Plus(Xd.data(), td.data(), od.data());
      GD ed = Xd + td;
      bool same = true; for (int i = 0; i < G::RepSize; ++i) same = same && od.coeffs()(i).a == ed.coeffs()(i).a && od.coeffs()(i).v == ed.coeffs()(i).v;
      close(same ? 0 : 1, 0.5, "functor_equals_member", "manifold.Plus<Dual>/" + key);
      TD md; mf.Minus(Yd.data(), Xd.data(), md.data());
      TD em = Yd - Xd;
      same = true; for (int i = 0; i < D; ++i) same = same && md.coeffs()(i).a == em.coeffs()(i).a && md.coeffs()(i).v == em.coeffs()(i).v;
      close(same ? 0 : 1, 0.5, "functor_equals_member", "manifold.Minus<Dual>/" + key);
    }
    // objective: || target (-) X || * w
    {
      manif::CeresObjectiveFunctor<G> ob(Y, 2.5);
      double r = 0; ob(X.data(), &r);
      double e = (Y - X).coeffs().norm() * 2.5;
      close(std::fabs(r - e) / std::max(1.0, std::fabs(e)), 1e-15L, "functor_computes_documented_residual", "objective<double>/" + key);
      GD Xd = liftG(X) + seed(); Du rd; ob(Xd.data(), &rd);
      Du ed = (Y.template cast<Du>() - Xd).coeffs().norm() * Du(2.5);
      // (the derivative of a norm at 0 is NaN in both: the functor must reproduce the documented expression, NaN for NaN)
      double dv = same_dual(rd, ed) ? 0 : std::fabs(rd.a - ed.a) / std::max(1.0, std::fabs(e)) + vf::maxabs((rd.v - ed.v)) / std::max(1.0, (double)vf::maxabs(ed.v));
      close(dv, 1e-12L, "functor_computes_documented_residual", "objective<Dual>/" + key);
      // a second objective with another target and weight, evaluated after the first (state belongs to the object)
      manif::CeresObjectiveFunctor<G> ob2(X, 0.5);
      double r2 = 0; ob2(Y.data(), &r2);
      double e2 = (X - Y).coeffs().norm() * 0.5;
      close(std::fabs(r2 - e2) / std::max(1.0, std::fabs(e2)), 1e-15L, "functor_computes_documented_residual", "objective_second_object<double>/" + key);
      double r3 = 0; ob(X.data(), &r3);
      close(std::fabs(r3 - e) / std::max(1.0, std::fabs(e)), 1e-15L, "functor_computes_documented_residual", "objective_first_object_again<double>/" + key);
    }
    // constraint: sqrt_info * (m - (future (-) past))
    {
      manif::CeresConstraintFunctor<G> cf(t);
      T r; cf(X.data(), Y.data(), r.data());
      T e = t - (Y - X);
      close((ref::Real)vf::maxabs((r.coeffs() - e.coeffs())) / std::max((ref::Real)1, (ref::Real)vf::maxabs(e.coeffs())), 1e-13L, "functor_computes_documented_residual", "constraint<double>/" + key);
      GD Xd = liftG(X) + seed(), Yd = liftG(Y); TD rd; cf(Xd.data(), Yd.data(), rd.data());
      TD ed = t.template cast<Du>() - (Yd - Xd);
      double dv = 0; for (int i = 0; i < D; ++i) dv = vf::accmax(vf::accmax(dv, std::fabs(rd.coeffs()(i).a - ed.coeffs()(i).a)), (double)vf::maxabs((rd.coeffs()(i).v - ed.coeffs()(i).v)));
      close(dv / std::max((ref::Real)1, (ref::Real)vf::maxabs(e.coeffs())), 1e-12L, "functor_computes_documented_residual", "constraint<Dual>/" + key);
      // a second constraint with another covariance, and the first one re-weighted afterwards: the weighting belongs to the object
      // (seed C12c cached the first square-root information matrix in a function-local static).  Diagonal covariance
      // diag(1/(i+2)^2) => sqrt information = diag(i+2), so the expected residual is e_i*(i+2), computed here by hand.
      typename manif::CeresConstraintFunctor<G>::Covariance C = manif::CeresConstraintFunctor<G>::Covariance::Zero();
      for (int i = 0; i < D; ++i) C(i, i) = 1.0 / ((i + 2.0) * (i + 2.0));
      // (const references: with a non-const lvalue the variadic forwarding constructor of the functor is the better match)
      manif::CeresConstraintFunctor<G> cf2(static_cast<const T&>(t), static_cast<const typename manif::CeresConstraintFunctor<G>::Covariance&>(C));
      for (int pass = 0; pass < 2; ++pass) {
        if (pass == 1) cf.setMeasurementCovariance(C);
        const manif::CeresConstraintFunctor<G>& f = pass == 0 ? cf2 : cf;
        const std::string nm = pass == 0 ? "constraint_second_covariance" : "constraint_after_setMeasurementCovariance";
        T r2; f(X.data(), Y.data(), r2.data());
        double d2 = 0; for (int i = 0; i < D; ++i) d2 = vf::accmax(d2, std::fabs((double)r2.coeffs()(i) - (double)e.coeffs()(i) * (i + 2.0)) / (i + 2.0));
        close(d2 / std::max((ref::Real)1, (ref::Real)vf::maxabs(e.coeffs())), 1e-12L, "functor_computes_documented_residual", nm + "<double>/" + key);
        TD rd2; f(Xd.data(), Yd.data(), rd2.data());
        double dv2 = 0;
        for (int i = 0; i < D; ++i) { Du want = ed.coeffs()(i) * Du(i + 2.0); dv2 = vf::accmax(vf::accmax(dv2, std::fabs(rd2.coeffs()(i).a - want.a) / (i + 2.0)), (double)vf::maxabs((rd2.coeffs()(i).v - want.v)) / (i + 2.0)); }
        close(dv2 / std::max((ref::Real)1, (ref::Real)vf::maxabs(e.coeffs())), 1e-11L, "functor_computes_documented_residual", nm + "<Dual>/" + key);
      }
    }
  }
  template <class F> void manifold_plus(const F& lp, const G& X, const T& t, const std::string& key, const char* name) {
    G out; lp(X.data(), t.data(), out.data());
    close(vf::bits_equal(out.coeffs(), (X + t).coeffs()) ? 0 : 1, 0.5, "functor_equals_member", std::string(name) + "<double>/" + key);
    GD Xd = liftG(X); TD td = liftT(t) + seed(); GD od; lp(Xd.data(), td.data(), od.data());
    GD ed = Xd + td;
    bool same = true; for (int i = 0; i < G::RepSize; ++i) same = same && od.coeffs()(i).a == ed.coeffs()(i).a && od.coeffs()(i).v == ed.coeffs()(i).v;
    close(same ? 0 : 1, 0.5, "functor_equals_member", std::string(name) + "<Dual>/" + key);
  }
#endif

  // single precision agrees with double to single-precision accuracy
  void float_vs_double(const G& X, const G& Y, const T& t, const std::string& key, ref::Real L) {
    typedef typename GF::Tangent TF;
    GF Xf = X.template cast<float>(), Yf = Y.template cast<float>();
    TF tf = t.template cast<float>();
    const ref::Group& gf = vf::RG<GF>();
    // operate on the float-rounded inputs in both precisions
    G Xr = Xf.template cast<double>(), Yr = Yf.template cast<double>(); T tr = tf.template cast<double>();
    typedef vf::Bars<float> BF;
    auto cmpG = [&](const char* op, const GF& a, const G& b) {
      ref::Real d = gf.diffM(vf::Mof(a), vf::Mof(b), std::max(L, g.lin_scale_M(vf::Mof(b))));
      close(d, 4 * BF::B3, "float_agrees_with_double", std::string(op) + "/" + key);
    };
    auto cmpT = [&](const char* op, const TF& a, const T& b) {
      ref::Real d = gf.difft(vf::toL(a.coeffs()), vf::toL(b.coeffs()), std::max(L, g.lin_scale_t(vf::toL(b.coeffs()))));
      close(d, 4 * BF::B3, "float_agrees_with_double", std::string(op) + "/" + key);
    };
    cmpG("compose", Xf * Yf, Xr * Yr); cmpG("inverse", Xf.inverse(), Xr.inverse()); cmpG("exp", tf.exp(), tr.exp());
    cmpG("rplus", Xf + tf, Xr + tr); cmpG("between", Xf.between(Yf), Xr.between(Yr));
    if (g.max_rot_angle(vf::toL(Xr.log().coeffs())) < 3.0L) cmpT("log", Xf.log(), Xr.log());
    if (g.max_rot_angle(vf::toL(Xr.rminus(Yr).coeffs())) < 3.0L) cmpT("rminus", Xf.rminus(Yf), Xr.rminus(Yr));
    ++R.states;
  }

  void run() {
    std::vector<lat::XAtom> xs = lat::thin(lat::elements(g, cfg, lat::REDUCED, lat::PI - 1e-3L), cfg.thorough ? 300 : 50, R.args.seed);
    std::vector<lat::TAtom> ts = lat::thin(lat::tangents(g, cfg, lat::REDUCED, lat::PI - 1e-3L), cfg.thorough ? 60 : 16, R.args.seed);
    // the exact identity / zero tangent: the perturbation sits on the small-angle branch boundary
    P p; for (int i = 0; i < G::Dim; ++i) p(i) = S(0.25 * (i + 1) * ((i % 2) ? -1 : 1));
    R.product_size = (long)xs.size();
    for (size_t i = 0; i < xs.size(); ++i) {
      if (!R.mine()) continue;
      const lat::TAtom& ta = ts[i % ts.size()];
      const lat::XAtom& ya = xs[(i * 7 + 3) % xs.size()];
      G X = vf::make_elem<G>(xs[i].c), Y = vf::make_elem<G>(ya.c);
      T t = vf::make_tan<T>(ta.t);
      // stratum: does any rotation magnitude entering the computation (per block: X, Y, t, Y^-1 X, X Y^-1) lie just above the small-angle
      // switch-over, where the value code computes (1-cos)/theta^2-type coefficients by cancellation?
      std::string zone = "regular";
      {
        const ref::Real lo = 0.5L * std::sqrt(cfg.eps), hi = 2e-3L;
        std::vector<ref::Vec> vs;
        bool o1 = false, o2 = false, o3 = false, o4 = false;
        vs.push_back(g.log(vf::Mof(X), &o1)); vs.push_back(g.log(vf::Mof(Y), &o2)); vs.push_back(vf::toL(t.coeffs()));
        vs.push_back(g.log(g.inv(vf::Mof(Y)) * vf::Mof(X), &o3)); vs.push_back(g.log(vf::Mof(X) * g.inv(vf::Mof(Y)), &o4));
        for (size_t q = 0; q < vs.size(); ++q)
          for (size_t b = 0; b < g.blocks.size(); ++b) { ref::Real th = g.rot_angle(vs[q], (int)b); if (th > lo && th < hi) zone = "above_small_angle_switch"; }
      }
      std::string key = "zone=" + zone + ";" + xs[i].key + ";" + ya.key + ";" + ta.key;
      if (!R.args.replay.empty() && R.args.replay.find(key) == std::string::npos) continue;
      R.count("cells_in_zone_" + zone);
      ref::Real L = std::max(std::max(g.lin_scale_M(vf::Mof(X)), g.lin_scale_M(vf::Mof(Y))), ta.lin);
      L = std::max(L, g.lin_scale_M(vf::Mof(X).cwiseAbs() * vf::Mof(Y).cwiseAbs()));
      if (xs[i].theta != 0 && ta.theta != 0) ++R.nontrivial;
#if ON(1)
      bool rel_ok = true;
      { bool ok = false; ref::Vec r = g.log(g.inv(vf::Mof(Y)) * vf::Mof(X), &ok); rel_ok = ok && g.max_rot_angle(r) < lat::PI - 1e-3L; }
      if (rel_ok) cell(X, Y, t, p, key, L); else ++R.skipped;
      float_vs_double(X, Y, t, key, L);
#endif
#if ON(2)
      functors(X, Y, t, key);
#endif
      if (i == xs.size() / 2) R.sample("{" + vf::kv("cell", vf::q(key)) + "," + vf::kv("X", vf::decvec(X.coeffs())) + "," + vf::kv("t", vf::decvec(t.coeffs())) + "}");
    }
  }
};

template <class G> void run_c12(vf::Report& R) { C12<G> c(R); c.run(); }
VF_MAIN("C12", run_c12)
