// C15 (smoothing polynomial): phi(0)=0, phi(1)=1, monotone on [0,1] for every supported degree; unsupported degrees raise.
// Decided over EXACT rationals (GMP) on the grid k/1024, and over every float in [0,1] (thorough) / a 2^-16 grid (quick).
#include <gmpxx.h>
#include <manif/manif.h>
#include <manif/algorithms/interpolation.h>
#include "report.hpp"
#include <cmath>
#include <cstdint>
#include <cstring>

// exact rational without expression templates (the library code uses ?: on arithmetic results)
struct Q {
  mpq_class v;
  Q() {}
  Q(double d) : v(d) {}
  Q(const mpq_class& m) : v(m) {}
  Q operator*(const Q& o) const { return Q(mpq_class(v * o.v)); }
  Q operator+(const Q& o) const { return Q(mpq_class(v + o.v)); }
  Q operator-(const Q& o) const { return Q(mpq_class(v - o.v)); }
};

int main(int argc, char** argv) {
  vf::Args a; a.parse(argc, argv);
  vf::Report R("C15", VF_UNIT, a);
  auto expect = [&](bool ok, const char* check, const std::string& key, const std::string& detail) {
    ++R.transitions;
    if (!R.judge(check, ok ? 0 : 1, 0.5, key)) R.fail(check, std::string(check) + "/" + key, 1, 0, detail);
  };
  // which degrees are supported is discovered, then judged against the documented set {1,2,3,4}
  for (std::size_t d = 0; d <= 8; ++d) {
    int outcome = 0;
    try { (void)manif::smoothing_phi(0.5, d); } catch (std::exception&) { outcome = 1; }
    bool supported = d >= 1 && d <= 4;
    ++R.states;
    expect(supported ? outcome == 0 : outcome == 1, supported ? "supported_degree_evaluates" : "unsupported_degree_raises", "degree=" + std::to_string(d), "{}");
    if (outcome) continue;
    // exact rationals
    mpq_class prev = manif::smoothing_phi(Q(mpq_class(0)), d).v;
    expect(prev == 0, "phi(0)_is_0_exactly", "degree=" + std::to_string(d), "{\"phi0\":\"" + prev.get_str() + "\"}");
    mpq_class one = manif::smoothing_phi(Q(mpq_class(1)), d).v;
    expect(one == 1, "phi(1)_is_1_exactly", "degree=" + std::to_string(d), "{\"phi1\":\"" + one.get_str() + "\"}");
    for (int k = 1; k <= 1024; ++k) {
      mpq_class t(k, 1024); t.canonicalize();
      mpq_class v = manif::smoothing_phi(Q(t), d).v;
      ++R.states;
      bool ok = v >= prev && v >= 0 && v <= 1;
      if (!ok || k % 256 == 0) expect(ok, "phi_monotone_exact_grid", "degree=" + std::to_string(d) + ",t=" + std::to_string(k) + "/1024", "{\"phi\":\"" + v.get_str() + "\",\"prev\":\"" + prev.get_str() + "\"}");
      else { ++R.transitions; ++R.evaluations; }
      if (v != prev) ++R.nontrivial;
      prev = v;
    }
    // floating point: the polynomial is evaluated with coefficients of alternating sign, so the computed value carries a
    // rounding error of up to ~ (number of operations) * u * sum|c_i|; monotonicity is judged up to that bound only
    // (the exact-rational pass above is what decides the mathematical statement)
    {
      const double sumc[5] = {0, 5, 31, 209, 1471};
      const double fbar = 16 * 5.97e-8 * sumc[d];
      const bool thorough = a.thorough();
      float pv = manif::smoothing_phi(0.0f, d);
      expect(pv == 0.0f && manif::smoothing_phi(1.0f, d) == 1.0f && manif::smoothing_phi(0.0, d) == 0.0 && manif::smoothing_phi(1.0, d) == 1.0, "phi_endpoints_float_double", "degree=" + std::to_string(d), "{}");
      long bad = 0, n = 0; float worst_t = 0; double worst = 0;
      if (thorough) {
        uint32_t lo = 0, hi; float onef = 1.0f; memcpy(&hi, &onef, 4);
        for (uint32_t b = lo; b <= hi; ++b) {
          float t; memcpy(&t, &b, 4);
          float v = manif::smoothing_phi(t, d);
          double drop = (double)pv - (double)v;
          if (drop > worst) { worst = drop; worst_t = t; }
          if (drop > fbar) ++bad;
          pv = v > pv ? v : pv; ++n;
        }
      } else {
        for (int k = 0; k <= 65536; ++k) {
          float t = (float)k / 65536.0f;
          float v = manif::smoothing_phi(t, d);
          double drop = (double)pv - (double)v;
          if (drop > worst) { worst = drop; worst_t = t; }
          if (drop > fbar) ++bad;
          pv = v > pv ? v : pv; ++n;
        }
      }
      R.states += n; R.transitions += n;
      char buf[128]; snprintf(buf, sizeof buf, "{\"values\":%ld,\"violations\":%ld,\"worst_drop\":%.3g,\"at\":%.9g}", n, bad, worst, (double)worst_t);
      expect(bad == 0, "phi_monotone_float_sweep", "degree=" + std::to_string(d), buf);
      R.counters["float_values_swept_degree_" + std::to_string(d)] = n;
    }
    R.sample("{\"cell\":\"degree=" + std::to_string(d) + "\",\"phi(1/2)\":\"" + manif::smoothing_phi(Q(mpq_class(1, 2)), d).v.get_str() + "\"}");
  }
  R.product_size = R.states;
  R.write();
  return 0;
}
